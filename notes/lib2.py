"""Scratch: stress shapes for emitted tests."""
import sys, os
sys.path.insert(0, os.path.dirname(__file__))
from dsl import *
P = 'mc.zoo.v1'
def q(n): return f'.{P}.{n}'
EMPTY = '.google.protobuf.Empty'; OP = '.google.longrunning.Operation'

def build(parameter='', only=None):
    color = enum('Color', 'COLOR_UNSPECIFIED', 'RED', 'BLUE')
    solo = enum('Solo', 'ONLY')
    leaf = message('Leaf', [field('name', 1, 'string'), field('n', 2, 'int32')])
    tree = message('Tree', [field('name', 1, 'string'), field('kids', 2, q('Tree'), repeated=True), field('leaf', 3, q('Leaf')), field('color', 4, 'enum:'+q('Color')),
                            field('attrs', 5, q('Tree.AttrsEntry'), repeated=True), field('leaves', 6, q('Tree.LeavesEntry'), repeated=True)],
                   nested=[message('AttrsEntry', [field('key', 1, 'string'), field('value', 2, 'int64')], map_entry=True),
                           message('LeavesEntry', [field('key', 1, 'int32'), field('value', 2, q('Leaf'))], map_entry=True)],
                   resource=('zoo.googleapis.com/Tree', 'forests/{forest}/trees/{tree}'))
    blank = message('Blank')
    msgs = [leaf, tree, blank]
    methods = []
    def add(name, req_fields, out=None, http=None, sigs=(), **kw):
        msgs.append(message(name + 'Request', req_fields))
        methods.append(method(name, q(name + 'Request'), out or q('Tree'), http=http, sigs=sigs, **kw))
    # required scalars of every kind in query
    i = 1; rf = [field('name', 1, 'string', required=True)]
    for t in SCALARS:
        i += 1; rf.append(field('r_' + t, i, t, required=True))
    rf.append(field('r_color', 30, 'enum:'+q('Color'), required=True)); rf.append(field('r_leaf', 31, q('Leaf'), required=True))
    add('ReqScalars', rf, http=('get', '/v1/{name=forests/*/trees/*}'), sigs=['name'])
    add('ReqScalarsPost', [field('name', 1, 'string', required=True), field('count', 2, 'int64', required=True), field('tree', 3, q('Tree'), required=True), field('flag', 4, 'bool', required=True)],
        http=('post', '/v1/{name=forests/*}/trees', 'tree'), sigs=['name,tree,count'])
    add('NestedPath', [field('tree', 1, q('Tree'), required=True), field('mask', 2, '.google.protobuf.FieldMask')], http=('patch', '/v1/{tree.name=forests/*/trees/*}', 'tree'), sigs=['tree,mask', 'tree'])
    add('LeafPath', [field('tree', 1, q('Tree')), field('extra', 2, 'string')], http=('get', '/v1/{tree.leaf.name=leaves/*}'), sigs=['tree'])
    add('IntPath', [field('id', 1, 'int64', required=True), field('zone', 2, 'string', required=True)], http=('get', '/v1/zones/{zone}/things/{id}'), sigs=['zone,id'])
    add('MultiBind', [field('name', 1, 'string'), field('parent', 2, 'string'), field('tree', 3, q('Tree'))],
        http=('post', '/v1/{name=forests/*/trees/*}:grow', '*', [('post', '/v1/{parent=forests/*}/trees:grow', 'tree'), ('get', '/v1/trees:grow')]), sigs=['name'])
    add('Voidy', [field('name', 1, 'string')], out=EMPTY, http=('delete', '/v1/{name=forests/*/trees/*}'), sigs=['name'])
    add('NoHttp', [field('name', 1, 'string')], sigs=['name'])
    add('Oneofs', [field('a', 1, 'string', oneof=0), field('b', 2, q('Leaf'), oneof=0), field('c', 3, 'int32', optional=True), field('d', 4, 'string', optional=True)],
        http=('post', '/v1/oneofs', '*'), sigs=['a,b,c,d'])
    msgs[-1].oneof_decl.insert(0, d.OneofDescriptorProto(name='pick'))
    # fix indices for optional synthetic oneofs after inserting real oneof at 0
    m = msgs[-1]
    for f in m.field:
        if f.proto3_optional: f.oneof_index += 1
    add('Reps', [field('names', 1, 'string', repeated=True), field('trees', 2, q('Tree'), repeated=True), field('colors', 3, 'enum:'+q('Color'), repeated=True),
                 field('attrs', 4, q('RepsRequest.AttrsEntry'), repeated=True), field('nums', 5, 'double', repeated=True)],
        http=('post', '/v1/reps', '*'), sigs=['names,trees,colors,attrs,nums'])
    msgs[-1].nested_type.append(message('AttrsEntry', [field('key', 1, 'string'), field('value', 2, q('Leaf'))], map_entry=True))
    add('BlankIn', [], http=('get', '/v1/blank'))
    methods.append(method('EmptyIn', EMPTY, q('Tree'), http=('get', '/v1/emptyin')))
    methods.append(method('StructIn', '.google.protobuf.Struct', '.google.protobuf.Struct', http=('post', '/v1/struct', '*')))
    add('Reserved', [field('type', 1, 'string'), field('class', 2, 'string'), field('format', 3, q('Leaf')), field('next', 4, 'int32'), field('name', 5, 'string')],
        http=('post', '/v1/{type=types/*}/classes/{class}', 'format'), sigs=['type,class,format,next'])
    # paging variants
    msgs.append(message('ListTreesResponse', [field('trees', 1, q('Tree'), repeated=True), field('next_page_token', 2, 'string'), field('unreachable', 3, 'string', repeated=True)]))
    msgs.append(message('ListTreesRequest', [field('parent', 1, 'string', required=True, child_ref='zoo.googleapis.com/Tree'), field('page_size', 2, 'int32'), field('page_token', 3, 'string')]))
    methods.append(method('ListTrees', q('ListTreesRequest'), q('ListTreesResponse'), http=('get', '/v1/{parent=forests/*}/trees'), sigs=['parent']))
    msgs.append(message('ListNamesResponse', [field('names', 1, 'string', repeated=True), field('next_page_token', 2, 'string')]))
    msgs.append(message('ListNamesRequest', [field('max_results', 2, '.google.protobuf.UInt32Value'), field('page_token', 3, 'string')]))
    methods.append(method('ListNames', q('ListNamesRequest'), q('ListNamesResponse'), http=('get', '/v1/names')))
    msgs.append(message('ListMapResponse', [field('items', 1, q('ListMapResponse.ItemsEntry'), repeated=True), field('next_page_token', 2, 'string')],
                        nested=[message('ItemsEntry', [field('key', 1, 'string'), field('value', 2, q('Leaf'))], map_entry=True)]))
    msgs.append(message('ListMapRequest', [field('page_size', 2, 'int32'), field('page_token', 3, 'string')]))
    methods.append(method('ListMap', q('ListMapRequest'), q('ListMapResponse'), http=('get', '/v1/map')))
    # LRO variants
    add('GrowEmpty', [field('name', 1, 'string')], out=OP, http=('post', '/v1/{name=forests/*/trees/*}:e', '*'), lro=('google.protobuf.Empty', 'Blank'))
    add('GrowFq', [field('name', 1, 'string')], out=OP, http=('post', '/v1/{name=forests/*/trees/*}:f', '*'), lro=(P + '.Tree', P + '.Leaf'), sigs=['name'])
    add('RawOp', [field('name', 1, 'string')], out=OP, http=('post', '/v1/{name=forests/*/trees/*}:r', '*'))
    # streaming
    add('SStream', [field('name', 1, 'string')], ss=True, http=('get', '/v1/{name=forests/*}:ss'))
    add('CStream', [field('name', 1, 'string')], cs=True)
    add('Bidi', [field('name', 1, 'string')], cs=True, ss=True)
    # routing
    add('Routed', [field('name', 1, 'string'), field('tree', 2, q('Tree')), field('db', 3, 'string')], http=('post', '/v1/routed', '*'),
        routing=[('name', ''), ('name', '{zone=forests/*}/**'), ('tree.name', '{tname=**}'), ('db', 'dbs/{db_id=*}')])
    if only:
        keep = set(only.split(','))
        methods = [m for m in methods if m.name in keep]
    svc = service('Zoo', methods)
    f = file('mc/zoo/v1/zoo.proto', P, messages=msgs, enums=[color, solo], services=[svc])
    return request([f], parameter)

if __name__ == '__main__':
    req = build(sys.argv[1], sys.argv[3] if len(sys.argv) > 3 else None)
    pool_check(req)
    open(sys.argv[2], 'wb').write(req.SerializeToString())
