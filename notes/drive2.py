import sys, os, json, time
sys.path.insert(0, sys.argv[2])
import grpc
from google.protobuf.compiler import plugin_pb2
from google.protobuf import descriptor_pool, message_factory, json_format
from google.auth import credentials as ga_credentials
req = plugin_pb2.CodeGeneratorRequest.FromString(open(sys.argv[1],'rb').read())
pool = descriptor_pool.DescriptorPool()
for f in req.proto_file: pool.Add(f)
def cls(name): return message_factory.GetMessageClass(pool.FindMessageTypeByName(name))

class Call:
    def __init__(s, ch, kind, path, ser, deser): s.ch, s.kind, s.path, s.ser, s.deser = ch, kind, path, ser, deser
    def __call__(s, request, timeout=None, metadata=None, credentials=None, wait_for_ready=None, compression=None):
        raw = s.ser(request)
        s.ch.log.append(dict(kind=s.kind, path=s.path, raw=raw, metadata=metadata, timeout=timeout))
        reply = s.ch.script.pop(0)
        if isinstance(reply, Exception): raise reply
        return s.deser(reply) if s.deser else None
    def with_call(s, *a, **k): return s(*a, **k), None
    def future(s, *a, **k): raise NotImplementedError

class FakeChannel(grpc.Channel):
    def __init__(s): s.log = []; s.script = []
    def _mk(s, kind, path, request_serializer=None, response_deserializer=None, _registered_method=False):
        return Call(s, kind, path, request_serializer, response_deserializer)
    def unary_unary(s, *a, **k): return s._mk('unary_unary', *a, **k)
    def unary_stream(s, *a, **k): return s._mk('unary_stream', *a, **k)
    def stream_unary(s, *a, **k): return s._mk('stream_unary', *a, **k)
    def stream_stream(s, *a, **k): return s._mk('stream_stream', *a, **k)
    def subscribe(s, *a, **k): pass
    def unsubscribe(s, *a, **k): pass
    def close(s): pass
    def __enter__(s): return s
    def __exit__(s, *a): pass

from mc import lib_v1
from mc.lib_v1.services.library.transports import LibraryGrpcTransport, LibraryRestTransport
ch = FakeChannel()
c = lib_v1.LibraryClient(transport=LibraryGrpcTransport(channel=ch))
Book = cls('mc.lib.v1.Book'); LR = cls('mc.lib.v1.ListBooksResponse')
ch.script = [Book(name='shelves/1/books/2', title='T', type='x').SerializeToString()]
t0=time.time()
r = c.get_book(name='shelves/1/books/2')
print('get_book ->', type(r).__name__, r.title, r.type_, ch.log[-1]['path'], ch.log[-1]['metadata'], cls('mc.lib.v1.GetBookRequest').FromString(ch.log[-1]['raw']))
ch.script = [LR(books=[Book(name='a'), Book(name='b')], next_page_token='t1').SerializeToString(), LR(books=[], next_page_token='t2').SerializeToString(), LR(books=[Book(name='c')]).SerializeToString()]
pager = c.list_books(parent='shelves/1', )
print([b.name for b in pager], [cls('mc.lib.v1.ListBooksRequest').FromString(l['raw']).page_token for l in ch.log[1:]])
print('grpc time', time.time()-t0)


import requests, io
from requests.adapters import BaseAdapter
class FakeAdapter(BaseAdapter):
    def __init__(s): super().__init__(); s.log=[]; s.script=[]
    def send(s, request, **kw):
        s.log.append(dict(verb=request.method, url=request.url, headers=dict(request.headers), body=request.body, kw=kw))
        status, body = s.script.pop(0)
        r = requests.Response(); r.status_code = status; r.raw = io.BytesIO(body); r._content = body; r.request = request; r.url = request.url
        r.headers['Content-Type'] = 'application/json'
        return r
    def close(s): pass
t = LibraryRestTransport(credentials=ga_credentials.AnonymousCredentials(), host='localhost:1', url_scheme='http')
ad = FakeAdapter(); t._session.mount('http://', ad)
rc = lib_v1.LibraryClient(transport=t)
ad.script=[(200, json_format.MessageToJson(Book(name='n', title='T2')).encode())]
t0=time.time()
r = rc.create_book(parent='shelves/7', book=lib_v1.Book(title='T2', kind=lib_v1.Kind.POETRY, type_='q', labels={'a':'b'}), book_id='z z&')
print(r.title, ad.log[-1], time.time()-t0)
