#!/bin/sh
for a in "$@"; do
  case "$a" in
    --version) echo "pandoc 3.1.0"; exit 0;;
    --list-input-formats) printf 'commonmark\nrst\nmarkdown\n'; exit 0;;
    --list-output-formats) printf 'rst\n'; exit 0;;
  esac
done
cat
