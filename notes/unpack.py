import sys, os, shutil
from google.protobuf.compiler import plugin_pb2
res = plugin_pb2.CodeGeneratorResponse.FromString(open(sys.argv[1],'rb').read())
out = sys.argv[2]; shutil.rmtree(out, ignore_errors=True)
for f in res.file:
    p=os.path.join(out,f.name); os.makedirs(os.path.dirname(p),exist_ok=True); open(p,'w').write(f.content)
print(len(res.file), 'files')
