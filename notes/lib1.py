"""Scratch: a 'conventional' library API exercising many features."""
import sys, os, time, json
sys.path.insert(0, os.path.dirname(__file__))
from dsl import *
P = 'mc.lib.v1'
def q(n): return f'.{P}.{n}'
EMPTY = '.google.protobuf.Empty'; OP = '.google.longrunning.Operation'

def build(parameter=''):
    kind = enum('Kind', 'KIND_UNSPECIFIED', 'FICTION', 'POETRY')
    book = message('Book', [
        field('name', 1, 'string'), field('title', 2, 'string'), field('kind', 3, 'enum:' + q('Kind')),
        field('pages', 4, 'int32'), field('rating', 5, 'double'), field('tags', 6, 'string', repeated=True),
        field('labels', 7, q('Book.LabelsEntry'), repeated=True), field('cover', 8, 'bytes'),
        field('in_print', 9, 'bool'), field('subtitle', 10, 'string', optional=True),
        field('isbn', 11, 'string', oneof=0), field('issn', 12, 'int64', oneof=0),
        field('author', 13, q('Book.Author')), field('type', 14, 'string'), field('sequel', 15, q('Book')),
        field('update_time', 16, '.google.protobuf.Timestamp'),
    ], nested=[message('LabelsEntry', [field('key', 1, 'string'), field('value', 2, 'string')], map_entry=True),
               message('Author', [field('given', 1, 'string'), field('family', 2, 'string')])],
       oneofs=['code'], resource=('mc.googleapis.com/Book', 'shelves/{shelf}/books/{book}'))
    shelf = message('Shelf', [field('name', 1, 'string'), field('theme', 2, 'string')], resource=('mc.googleapis.com/Shelf', 'shelves/{shelf}'))
    msgs = [book, shelf,
        message('GetBookRequest', [field('name', 1, 'string', required=True, ref='mc.googleapis.com/Book')]),
        message('CreateBookRequest', [field('parent', 1, 'string', required=True, ref='mc.googleapis.com/Shelf'), field('book', 2, q('Book'), required=True), field('book_id', 3, 'string'), field('request_id', 4, 'string', uuid4=True)]),
        message('UpdateBookRequest', [field('book', 1, q('Book'), required=True), field('update_mask', 2, '.google.protobuf.FieldMask')]),
        message('DeleteBookRequest', [field('name', 1, 'string', required=True, ref='mc.googleapis.com/Book'), field('force', 2, 'bool')]),
        message('ListBooksRequest', [field('parent', 1, 'string', required=True, ref='mc.googleapis.com/Shelf'), field('page_size', 2, 'int32'), field('page_token', 3, 'string'), field('filter', 4, 'string')]),
        message('ListBooksResponse', [field('books', 1, q('Book'), repeated=True), field('next_page_token', 2, 'string')]),
        message('MoveBookRequest', [field('name', 1, 'string', required=True), field('other_shelf', 2, 'string', required=True)]),
        message('MoveBookMetadata', [field('progress', 1, 'int32')]),
        message('StreamBooksRequest', [field('parent', 1, 'string')]),
        message('Chat', [field('text', 1, 'string')]),
    ]
    svc = service('Library', [
        method('GetBook', q('GetBookRequest'), q('Book'), http=('get', '/v1/{name=shelves/*/books/*}'), sigs=['name']),
        method('CreateBook', q('CreateBookRequest'), q('Book'), http=('post', '/v1/{parent=shelves/*}/books', 'book'), sigs=['parent,book,book_id']),
        method('UpdateBook', q('UpdateBookRequest'), q('Book'), http=('patch', '/v1/{book.name=shelves/*/books/*}', 'book'), sigs=['book,update_mask']),
        method('DeleteBook', q('DeleteBookRequest'), EMPTY, http=('delete', '/v1/{name=shelves/*/books/*}'), sigs=['name']),
        method('ListBooks', q('ListBooksRequest'), q('ListBooksResponse'), http=('get', '/v1/{parent=shelves/*}/books'), sigs=['parent']),
        method('MoveBook', q('MoveBookRequest'), OP, http=('post', '/v1/{name=shelves/*/books/*}:move', '*'), sigs=['name,other_shelf'], lro=('Book', 'MoveBookMetadata')),
        method('StreamBooks', q('StreamBooksRequest'), q('Book'), ss=True, http=('get', '/v1/{parent=shelves/*}/books:stream')),
        method('Discuss', q('Chat'), q('Chat'), cs=True, ss=True),
        method('Upload', q('Chat'), q('Chat'), cs=True),
    ])
    f = file('mc/lib/v1/library.proto', P, messages=msgs, enums=[kind], services=[svc])
    return request([f], parameter)

if __name__ == '__main__':
    param = sys.argv[1] if len(sys.argv) > 1 else ''
    req = build(param)
    pool_check(req)
    open(sys.argv[2], 'wb').write(req.SerializeToString())
