"""Scratch DSL (exploration only): build CodeGeneratorRequest from python."""
import importlib
from google.protobuf import descriptor_pb2 as d
from google.protobuf.compiler import plugin_pb2
from google.api import annotations_pb2, client_pb2, field_behavior_pb2, resource_pb2, http_pb2, routing_pb2, field_info_pb2
from google.longrunning import operations_pb2

T = d.FieldDescriptorProto
SCALARS = dict(double=T.TYPE_DOUBLE, float=T.TYPE_FLOAT, int64=T.TYPE_INT64, uint64=T.TYPE_UINT64, int32=T.TYPE_INT32,
    fixed64=T.TYPE_FIXED64, fixed32=T.TYPE_FIXED32, bool=T.TYPE_BOOL, string=T.TYPE_STRING, bytes=T.TYPE_BYTES,
    uint32=T.TYPE_UINT32, sfixed32=T.TYPE_SFIXED32, sfixed64=T.TYPE_SFIXED64, sint32=T.TYPE_SINT32, sint64=T.TYPE_SINT64)

def dep_files(*modnames):
    """Return FileDescriptorProtos (topologically sorted) for installed pb2 modules and their deps."""
    out, seen = [], set()
    def visit(fd):
        if fd.name in seen: return
        seen.add(fd.name)
        for dep in fd.dependencies: visit(dep)
        p = d.FileDescriptorProto(); fd.CopyToProto(p); out.append(p)
    for m in modnames:
        visit(importlib.import_module(m).DESCRIPTOR)
    return out

def field(name, number, typ, *, repeated=False, optional=False, oneof=None, required=False, ref=None, child_ref=None, uuid4=False, json_name=None):
    f = T(name=name, number=number)
    if typ in SCALARS: f.type = SCALARS[typ]
    elif typ.startswith('enum:'): f.type = T.TYPE_ENUM; f.type_name = typ[5:]
    else: f.type = T.TYPE_MESSAGE; f.type_name = typ
    f.label = T.LABEL_REPEATED if repeated else T.LABEL_OPTIONAL
    if optional: f.proto3_optional = True
    if oneof is not None: f.oneof_index = oneof
    if required: f.options.Extensions[field_behavior_pb2.field_behavior].append(field_behavior_pb2.REQUIRED)
    if ref: f.options.Extensions[resource_pb2.resource_reference].type = ref
    if child_ref: f.options.Extensions[resource_pb2.resource_reference].child_type = child_ref
    if uuid4: f.options.Extensions[field_info_pb2.field_info].format = field_info_pb2.FieldInfo.UUID4
    f.json_name = json_name or camel(name)
    return f

def camel(s):
    parts = s.split('_'); return parts[0] + ''.join(p.capitalize() for p in parts[1:])

def message(name, fields=(), *, nested=(), enums=(), oneofs=(), resource=None, map_entry=False):
    m = d.DescriptorProto(name=name)
    fields = list(fields)
    # synthetic oneofs for proto3 optional
    n_real = len(oneofs)
    for o in oneofs: m.oneof_decl.add(name=o)
    for f in fields:
        if f.proto3_optional:
            f.oneof_index = len(m.oneof_decl); m.oneof_decl.add(name='_' + f.name)
        m.field.append(f)
    m.nested_type.extend(nested); m.enum_type.extend(enums)
    if resource: 
        r = m.options.Extensions[resource_pb2.resource]; r.type = resource[0]; r.pattern.extend(resource[1:])
    if map_entry: m.options.map_entry = True
    return m

def enum(name, *values):
    e = d.EnumDescriptorProto(name=name)
    for i, v in enumerate(values): e.value.add(name=v, number=i)
    return e

def method(name, inp, out, *, cs=False, ss=False, http=None, sigs=(), lro=None, routing=None):
    m = d.MethodDescriptorProto(name=name, input_type=inp, output_type=out, client_streaming=cs, server_streaming=ss)
    if http:
        rule = m.options.Extensions[annotations_pb2.http]
        fill_rule(rule, http)
    for s in sigs: m.options.Extensions[client_pb2.method_signature].append(s)
    if lro:
        oi = m.options.Extensions[operations_pb2.operation_info]; oi.response_type, oi.metadata_type = lro
    if routing is not None:
        rr = m.options.Extensions[routing_pb2.routing]
        for fld, tmpl in routing: rr.routing_parameters.add(field=fld, path_template=tmpl)
    return m

def fill_rule(rule, http):
    verb, uri, *rest = http
    setattr(rule, verb, uri)
    body = rest[0] if rest else None
    if body: rule.body = body
    for extra in (rest[1] if len(rest) > 1 else ()):
        fill_rule(rule.additional_bindings.add(), extra)

def service(name, methods, host='mc.googleapis.com', scopes='https://www.googleapis.com/auth/cloud-platform'):
    s = d.ServiceDescriptorProto(name=name); s.method.extend(methods)
    if host: s.options.Extensions[client_pb2.default_host] = host
    if scopes: s.options.Extensions[client_pb2.oauth_scopes] = scopes
    return s

def file(name, package, *, messages=(), enums=(), services=(), deps=(), resource_defs=()):
    f = d.FileDescriptorProto(name=name, package=package, syntax='proto3')
    f.message_type.extend(messages); f.enum_type.extend(enums); f.service.extend(services); f.dependency.extend(deps)
    for t, *pats in resource_defs:
        r = f.options.Extensions[resource_pb2.resource_definition].add(); r.type = t; r.pattern.extend(pats)
    return f

STD = ['google.api.annotations_pb2', 'google.api.client_pb2', 'google.api.field_behavior_pb2', 'google.api.resource_pb2',
       'google.api.routing_pb2', 'google.api.field_info_pb2', 'google.longrunning.operations_pb2', 'google.protobuf.empty_pb2',
       'google.protobuf.field_mask_pb2', 'google.protobuf.timestamp_pb2', 'google.protobuf.wrappers_pb2', 'google.protobuf.struct_pb2']
STD_DEPS = ['google/api/annotations.proto', 'google/api/client.proto', 'google/api/field_behavior.proto', 'google/api/resource.proto',
            'google/api/routing.proto', 'google/api/field_info.proto', 'google/longrunning/operations.proto', 'google/protobuf/empty.proto',
            'google/protobuf/field_mask.proto', 'google/protobuf/timestamp.proto', 'google/protobuf/wrappers.proto', 'google/protobuf/struct.proto']

def request(files, parameter='', extra_dep_modules=()):
    req = plugin_pb2.CodeGeneratorRequest(parameter=parameter)
    req.proto_file.extend(dep_files(*STD, *extra_dep_modules))
    for f in files:
        if not f.dependency: f.dependency.extend(STD_DEPS)
        req.proto_file.append(f); req.file_to_generate.append(f.name)
    return req

def pool_check(req):
    from google.protobuf import descriptor_pool
    pool = descriptor_pool.DescriptorPool()
    for f in req.proto_file: pool.Add(f)
    return pool
