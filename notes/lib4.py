"""Scratch: odd shapes batch."""
import sys, os
sys.path.insert(0, os.path.dirname(__file__))
from dsl import *
P = 'mc.odd.v1'
def q(n): return f'.{P}.{n}'
EMPTY = '.google.protobuf.Empty'; OP = '.google.longrunning.Operation'
def build(parameter='', only=None, skip=None):
    solo = enum('Solo', 'ONLY')
    neg = enum('Neg', 'ZERO', 'ONE')
    rec = message('Rec', [field('name', 1, 'string'), field('rec', 2, q('Rec')), field('solo', 3, 'enum:'+q('Solo')), field('neg', 4, 'enum:'+q('Neg'))])
    ts = message('Stamp', [field('timestamp', 1, '.google.protobuf.Timestamp'), field('struct', 2, '.google.protobuf.Struct'), field('empty', 3, EMPTY), field('any', 4, '.google.protobuf.Any'),
                           field('duration', 5, '.google.protobuf.Duration'), field('field_mask', 6, '.google.protobuf.FieldMask'), field('value', 7, '.google.protobuf.Value'), field('status', 8, '.google.rpc.Status')])
    msgs = [rec, ts, message('OddThing', [field('name', 1, 'string')]), message('OddClient', [field('name', 1, 'string')])]
    methods = []
    def add(name, req_fields, out=None, http=None, sigs=(), **kw):
        msgs.append(message(name + 'Request', req_fields))
        m = method(name, q(name + 'Request'), out or q('Rec'), http=http, sigs=sigs, **kw); methods.append(m); return m
    add('CtrlFields', [field('request', 1, 'string'), field('retry', 2, 'string'), field('timeout', 3, 'int32'), field('metadata', 4, 'string')], http=('post', '/v1/ctrl', '*'))
    add('CtrlFlat', [field('request', 1, 'string'), field('retry', 2, 'string'), field('timeout', 3, 'int32'), field('metadata', 4, 'string')], http=('post', '/v1/ctrlflat', '*'), sigs=['retry', 'metadata'])
    add('BytesPath', [field('blob', 1, 'bytes'), field('ratio', 2, 'float'), field('flag', 3, 'bool')], http=('get', '/v1/b/{blob}/r/{ratio}/f/{flag}'), sigs=['blob,ratio,flag'])
    add('RecReq', [field('rec', 1, q('Rec'), required=True), field('stamp', 2, q('Stamp'))], http=('post', '/v1/rec', 'rec'), sigs=['rec,stamp'])
    dep = add('Deprecated', [field('name', 1, 'string')], http=('get', '/v1/{name=deps/*}'), sigs=['name']); dep.options.deprecated = True
    add('GetIAMPolicyX', [field('name', 1, 'string')], http=('get', '/v1/{name=iam/*}'), sigs=['name'])
    add('Get2FA', [field('name', 1, 'string')], http=('get', '/v1/{name=fa/*}'), sigs=['name'])
    add('Import', [field('name', 1, 'string')], http=('get', '/v1/{name=imp/*}'), sigs=['name'])
    add('StampOut', [field('name', 1, 'string')], out=q('Stamp'), http=('get', '/v1/{name=st/*}'))
    methods.append(method('TsIn', '.google.protobuf.Timestamp', '.google.protobuf.Duration', http=('post', '/v1/ts', '*')))
    add('EnumPath', [field('solo', 1, 'enum:'+q('Solo')), field('name', 2, 'string')], http=('get', '/v1/e/{solo}/n/{name}'), sigs=['solo,name'])
    add('RepeatedQuery', [field('names', 1, 'string', repeated=True, required=True), field('nums', 2, 'int32', repeated=True), field('recs', 3, q('Rec'), repeated=True)], http=('get', '/v1/rq'), sigs=['names'])
    add('DoubleStar', [field('name', 1, 'string')], http=('get', '/v1/{name=**}'), sigs=['name'])
    add('PutBodyField', [field('name', 1, 'string'), field('text', 2, 'string')], http=('put', '/v1/{name=p/*}', 'text'))
    if only: methods = [m for m in methods if m.name in set(only.split(','))]
    if skip: methods = [m for m in methods if m.name not in set(skip.split(','))]
    svc = service('Odd', methods)
    svc2 = service('NoHost', [method('Ping', q('OddThing'), q('OddClient'))], host='', scopes='')
    f = file('mc/odd/v1/odd.proto', P, messages=msgs, enums=[solo, neg], services=[svc])
    f.dependency.extend(STD_DEPS + ['google/protobuf/any.proto', 'google/protobuf/duration.proto', 'google/rpc/status.proto'])
    return request([f], parameter, extra_dep_modules=['google.protobuf.any_pb2', 'google.protobuf.duration_pb2', 'google.rpc.status_pb2'])
if __name__ == '__main__':
    req = build(sys.argv[1], *(sys.argv[3:5])); pool_check(req); open(sys.argv[2], 'wb').write(req.SerializeToString())
