"""Scratch: reserved words x positions."""
import sys, os, keyword
sys.path.insert(0, os.path.dirname(__file__))
from dsl import *
from gapic.utils.reserved_names import RESERVED_NAMES
P = 'mc.kw.v1'
def q(n): return f'.{P}.{n}'
WORDS = sorted(set(RESERVED_NAMES) | set(keyword.kwlist))
def cap(w): return ''.join(p.capitalize() for p in w.strip('_').split('_')) or 'X'
def build(parameter, positions, words):
    msgs, methods = [message('Inner', [field('name', 1, 'string')])], []
    for w in words:
        W = cap(w) + ('U' if w[0].isupper() else '')
        if 'field' in positions:
            msgs.append(message(f'F{W}Request', [field(w, 1, 'string'), field('other', 2, 'string')]))
            methods.append(method(f'F{W}', q(f'F{W}Request'), q('Inner'), http=('post', f'/v1/f{W}', '*')))
        if 'flat' in positions:
            msgs.append(message(f'L{W}Request', [field(w, 1, 'string'), field('other', 2, 'string')]))
            methods.append(method(f'L{W}', q(f'L{W}Request'), q('Inner'), http=('post', f'/v1/l{W}', '*'), sigs=[f'{w},other']))
        if 'path' in positions:
            msgs.append(message(f'P{W}Request', [field(w, 1, 'string'), field('other', 2, 'string')]))
            methods.append(method(f'P{W}', q(f'P{W}Request'), q('Inner'), http=('get', f'/v1/{{{w}=things/*}}')))
        if 'dotpath' in positions:
            msgs.append(message(f'D{W}Request', [field(w, 1, q('Inner')), field('other', 2, 'string')]))
            methods.append(method(f'D{W}', q(f'D{W}Request'), q('Inner'), http=('get', f'/v1/{{{w}.name=things/*}}')))
        if 'body' in positions:
            msgs.append(message(f'B{W}Request', [field(w, 1, q('Inner')), field('other', 2, 'string')]))
            methods.append(method(f'B{W}', q(f'B{W}Request'), q('Inner'), http=('post', f'/v1/b{W}', w)))
        if 'routing' in positions:
            msgs.append(message(f'R{W}Request', [field(w, 1, 'string'), field('other', 2, 'string')]))
            methods.append(method(f'R{W}', q(f'R{W}Request'), q('Inner'), http=('post', f'/v1/r{W}', '*'), routing=[(w, '')]))
    svc = service('Kw', methods)
    return request([file('mc/kw/v1/kw.proto', P, messages=msgs, services=[svc])], parameter)
if __name__ == '__main__':
    words = sys.argv[4].split(',') if len(sys.argv) > 4 else WORDS
    req = build(sys.argv[1], sys.argv[3].split(','), words); pool_check(req); open(sys.argv[2], 'wb').write(req.SerializeToString())
