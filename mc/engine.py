"""Parallel per-state pipeline (DESIGN.md 3.4):

    request --gate--> generator --> response --materialise--> scratch tree
            --probe (fresh interpreter, seams)--> observations

A *job* is a dict:
    id        : str, unique within the run
    req       : bytes, serialized CodeGeneratorRequest (parameter may hold @name@)
    opt_files : {name: text}          (optional)
    via       : 'inproc' | 'cli'      (default inproc)
    probe     : 'mc.probes.xxx' module run in a fresh interpreter (optional)
    probe_args: JSON-able             (optional)
    keep      : list of response-file globs whose content is returned (optional)
    hashseed  : PYTHONHASHSEED of the probe / CLI process (default '0')
    pb2_files : serialized FileDescriptorProtos of dependency-only files, written as
                protoc-style *_pb2.py modules into the scratch tree (mc/pb2gen.py)
    pre       : list of earlier jobs (dicts like this one, generate only) that are
                materialised into the same scratch tree first (dependency libraries)
The result is a dict: id, gen (ok/etype/emsg/where), names (emitted file names),
files {name: content} for `keep`, obs (probe JSON) or probe_error.
"""
import concurrent.futures as cf
import fnmatch
import json
import multiprocessing as mp
import os
import shutil
import subprocess
import tempfile
import time

from . import gen

_root = None


def scratch_root():
    global _root
    if _root is None:
        base = os.environ.get('VERIF_SCRATCH') or tempfile.gettempdir()
        os.makedirs(base, exist_ok=True)
        _root = tempfile.mkdtemp(prefix='verif-mc-', dir=base)
    return _root


def cleanup():
    global _root
    if _root and os.path.isdir(_root):
        shutil.rmtree(_root, ignore_errors=True)
    _root = None


def materialise(response_bytes, out):
    from google.protobuf.compiler import plugin_pb2
    res = plugin_pb2.CodeGeneratorResponse.FromString(response_bytes)
    names = []
    for f in res.file:
        names.append(f.name)
        p = os.path.normpath(os.path.join(out, f.name))
        if not p.startswith(out + os.sep):
            continue  # never write outside the scratch tree; C11 judges the name
        os.makedirs(os.path.dirname(p), exist_ok=True)
        with open(p, 'w', encoding='utf8') as fh:
            fh.write(f.content)
    return res, names


def run_probe(module, scratch, args, hashseed='0', timeout=1800, extra_env=None):
    ap = os.path.join(scratch, '_probe_args.json')
    op = os.path.join(scratch, '_probe_out.json')
    with open(ap, 'w') as f:
        json.dump(args, f)
    env = gen.child_env(dict(extra_env or {}, PYTHONPATH=scratch + os.pathsep + gen.VERIF),
                        hashseed=hashseed)
    t0 = time.time()
    try:
        p = subprocess.run([gen.PY, '-W', 'ignore', '-m', module, ap, op], cwd=scratch, env=env,
                           capture_output=True, timeout=timeout)
    except subprocess.TimeoutExpired:
        return None, f'probe timeout after {timeout}s'
    if p.returncode != 0 or not os.path.exists(op):
        return None, (f'probe rc={p.returncode}: ' + p.stderr.decode('utf8', 'replace')[-4000:])
    with open(op) as f:
        obs = json.load(f)
    obs['_probe_s'] = round(time.time() - t0, 3)
    return obs, None


def _generate(job, root, workdir):
    req = gen.bind_request(job['req'], job.get('opt_files'), root)
    if job.get('via', 'inproc') == 'cli':
        return gen.generate_cli(req, workdir, hashseed=job.get('hashseed', '0'),
                                cwd=job.get('cwd'), extra_env=job.get('gen_env'))
    return gen.generate_inproc(req)


def run_job(job, root):
    t0 = time.time()
    scratch = tempfile.mkdtemp(prefix='st-', dir=root)
    out = dict(id=job['id'])
    try:
        for pre in job.get('pre', ()):
            g = _generate(pre, root, scratch)
            if not g['ok']:
                out['gen'] = dict(ok=False, etype='PreGenerationFailed', emsg=str(g), where='')
                return out
            materialise(g['response'], scratch)
        for blob in job.get('pb2_files', ()):
            from . import pb2gen
            pb2gen.write_pb2(blob, scratch)
        g = _generate(job, root, scratch)
        out['gen'] = {k: v for k, v in g.items() if k != 'response'}
        out['gen_s'] = round(time.time() - t0, 3)
        if not g['ok']:
            return out
        if job.get('return_response'):
            out['response'] = g['response']
        if job.get('materialise', True):
            res, names = materialise(g['response'], scratch)
        else:
            from google.protobuf.compiler import plugin_pb2
            res = plugin_pb2.CodeGeneratorResponse.FromString(g['response'])
            names = [f.name for f in res.file]
        out['names'] = names
        out['supported_features'] = res.supported_features
        keep = job.get('keep')
        if keep:
            out['files'] = {f.name: f.content for f in res.file
                            if any(fnmatch.fnmatch(f.name, pat) for pat in keep)}
        if job.get('probe'):
            with open(os.path.join(scratch, '_request.bin'), 'wb') as f:
                f.write(job['req'])
            obs, err = run_probe(job['probe'], scratch, job.get('probe_args'),
                                 hashseed=job.get('hashseed', '0'),
                                 timeout=job.get('probe_timeout', 1800),
                                 extra_env=job.get('probe_env'))
            if err:
                out['probe_error'] = err
            else:
                out['obs'] = obs
        return out
    finally:
        out['wall_s'] = round(time.time() - t0, 3)
        shutil.rmtree(scratch, ignore_errors=True)


def _worker_init():
    gen._setup()


_pool = None


def pool(n=None):
    global _pool
    if _pool is None:
        n = n or int(os.environ.get('VERIF_JOBS', '0')) or min(16, os.cpu_count() or 4)
        _pool = cf.ProcessPoolExecutor(max_workers=n, mp_context=mp.get_context('spawn'),
                                       initializer=_worker_init)
    return _pool


def shutdown():
    global _pool
    if _pool is not None:
        _pool.shutdown(wait=True, cancel_futures=True)
        _pool = None


def run_jobs(jobs, progress=None):
    """Run jobs on the pool; results are returned in job order (deterministic)."""
    root = scratch_root()
    futs = [pool().submit(run_job, j, root) for j in jobs]
    out = []
    for i, f in enumerate(futs):
        out.append(f.result())
        if progress and (i + 1) % progress == 0:
            print(f'  .. {i + 1}/{len(jobs)} jobs', flush=True)
    return out


def pmap(fn, items, chunksize=1):
    """Parallel map of a picklable top-level function (pure-function checks)."""
    return list(pool().map(fn, items, chunksize=chunksize))
