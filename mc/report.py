"""Evidence, VIOLATION / KNOWN-FINDING lines, replay artefacts."""
import hashlib
import json
import os
import time

VERIF = os.path.dirname(os.path.dirname(os.path.abspath(__file__)))
# VERIF_EVIDENCE_DIR: development aid (seeded-defect and mutation runs write their evidence elsewhere)
EVIDENCE_DIR = os.environ.get('VERIF_EVIDENCE_DIR') or os.path.join(VERIF, 'evidence')
REPLAY_DIR = os.path.join(EVIDENCE_DIR, 'replays')
KNOWN = os.path.join(VERIF, 'KNOWN_FINDINGS.json')


class HarnessError(Exception):
    """Driver/seam bug: exit status 2, never a VIOLATION line."""


def load_known(prop):
    if not os.path.exists(KNOWN):
        return []
    with open(KNOWN) as f:
        doc = json.load(f)
    return [e for e in doc.get('findings', []) if e['property'] == prop]


class Ctx:
    """Handed to a driver's run(): collects coverage and violations."""

    def __init__(self, prop, tier, seed):
        self.prop, self.tier, self.seed = prop, tier, seed
        self.t0 = time.time()
        self.states = 0
        self.transitions = 0
        self.validated = 0
        self.evaluations = 0
        self.nontrivial = set()
        self.outcomes = {}
        self.samples = []
        self.extra = {}
        self.assumptions = []
        self.violations = []      # unlisted
        self.known_hits = {}      # what -> count
        self.exhaustive = True
        self.caps = []
        self._known = load_known(prop)
        self._fps = set()

    @property
    def thorough(self):
        return self.tier == 'thorough'

    # -- coverage ---------------------------------------------------------
    def state(self, n=1, transitions=None):
        self.states += n
        self.transitions += n if transitions is None else transitions

    def validated_n(self, n=1):
        self.validated += n

    def evaluated(self, n=1):
        self.evaluations += n

    def nontrivial_case(self, key):
        self.nontrivial.add(key if isinstance(key, (str, int, tuple)) else repr(key))

    def outcome(self, key, n=1):
        self.outcomes[key] = self.outcomes.get(key, 0) + n

    def sample(self, s, limit=4):
        if len(self.samples) < limit:
            self.samples.append(s)

    def cap(self, what):
        self.exhaustive = False
        self.caps.append(what)

    def assume(self, text):
        if text not in self.assumptions:
            self.assumptions.append(text)

    def log(self, *a):
        print(f'[{self.prop} {time.time() - self.t0:6.1f}s]', *a, flush=True)

    # -- violations -------------------------------------------------------
    def violation(self, fingerprint, what, state, observed=None, expected=None):
        """fingerprint: stable string naming the failing input/site + failure kind."""
        if fingerprint in self._fps:
            return
        self._fps.add(fingerprint)
        for e in self._known:
            if fingerprint in e.get('fingerprints', []) or fingerprint == e.get('fingerprint'):
                self.known_hits.setdefault(e['what'], []).append(fingerprint)
                return
        self.violations.append(dict(fingerprint=fingerprint, what=what, state=state,
                                    observed=observed, expected=expected))

    # -- output -----------------------------------------------------------
    def finish(self, level='model_checking', rule=''):
        os.makedirs(EVIDENCE_DIR, exist_ok=True)
        for what, fps in sorted(self.known_hits.items()):
            print(f'KNOWN-FINDING: property={self.prop} {what} [{len(fps)} cell(s), e.g. {fps[0]}]')
        shown = 0
        for v in self.violations:
            os.makedirs(REPLAY_DIR, exist_ok=True)
            h = hashlib.sha256(v['fingerprint'].encode()).hexdigest()[:12]
            path = os.path.join(REPLAY_DIR, f'{self.prop}-{h}.json')
            with open(path, 'w') as f:
                json.dump(dict(property=self.prop, **v), f, indent=1, default=repr, sort_keys=True)
            if shown < 40:
                print(f'VIOLATION property={self.prop} replay={path}')
                print(f'  fingerprint: {v["fingerprint"]}')
                print(f'  what: {str(v["what"])[:600]}')
            shown += 1
        if shown > 40:
            print(f'  ... and {shown - 40} more violations (replay files written)')
        cov = dict(
            states=self.states, transitions=self.transitions,
            traces_validated_against_impl=self.validated,
            evaluations=self.evaluations,
            distinct_nontrivial=len(self.nontrivial),
            distinct_outcomes=len(self.outcomes),
            outcomes={str(k): v for k, v in sorted(self.outcomes.items(), key=lambda kv: str(kv[0]))[:60]},
            rule=rule, samples=self.samples, exhaustive=self.exhaustive,
            caps=self.caps, known_findings_hit={k: len(v) for k, v in self.known_hits.items()},
        )
        cov.update(self.extra)
        doc = dict(property_id=self.prop, tier=self.tier, seed=self.seed, level=level,
                   coverage=cov, assumptions=self.assumptions,
                   wall_s=round(time.time() - self.t0, 2), violations=len(self.violations))
        with open(os.path.join(EVIDENCE_DIR, f'{self.prop}.json'), 'w') as f:
            json.dump(doc, f, indent=1, default=repr, sort_keys=True)
        print(f'{self.prop} tier={self.tier} seed={self.seed}: states={self.states} '
              f'transitions={self.transitions} validated={self.validated} '
              f'evaluations={self.evaluations} nontrivial={len(self.nontrivial)} '
              f'outcomes={len(self.outcomes)} exhaustive={self.exhaustive} '
              f'violations={len(self.violations)} known={sum(len(v) for v in self.known_hits.values())} '
              f'wall={doc["wall_s"]}s')
        return 1 if self.violations else 0
