"""Structural API edits around baseline L (DESIGN.md 7/C01).

An `Api` is a mutable bag: target files, dependency-only files, extra pb2 dep
modules.  Every edit is a function Api -> None that adds one whole-API shape
the templates or the schema model branch on.  Edits are ordered simplest-first
and are independent (each uses fresh names), so any subset can be applied to
the same baseline; `build(edit_names)` replays a history on fresh objects.
"""
from google.protobuf import descriptor_pb2 as d

from . import apis
from .desc import (field, message, enum, method, service, file, request, map_field,
                   EMPTY, OPERATION, std_dep_names)

P = apis.P
Q = apis.q
DOM = 'acme.googleapis.com'


class Api:
    def __init__(self, comments=None):
        self.main = apis.baseline_file(comments=comments)
        self.files = [self.main]          # target files, dependency order maintained by edits
        self.dep_files = []               # dependency-only files
        self.dep_modules = []             # extra installed pb2 modules
        self.notes = []

    # helpers
    @property
    def svc(self):
        return self.main.service[0]

    def msg(self, *ms):
        self.main.message_type.extend(ms)

    def rpc(self, *ms):
        self.svc.method.extend(ms)

    def req(self, name, *fields):
        self.msg(message(name, list(fields)))
        return Q(name)

    def add_file_before(self, f):
        """A new target file that the main file imports."""
        self.files.insert(0, f)
        self._dep(self.main, f.name)

    def add_file_after(self, f, imports_main=True):
        self.files.append(f)
        if imports_main:
            self._dep(f, self.main.name)

    def _dep(self, f, name):
        if not f.dependency:
            f.dependency.extend(std_dep_names(self.dep_modules))
        if name not in f.dependency:
            f.dependency.append(name)

    def need_module(self, mod):
        if mod not in self.dep_modules:
            self.dep_modules.append(mod)
            import importlib
            n = importlib.import_module(mod).DESCRIPTOR.name
            for f in self.files + self.dep_files:
                if f.dependency and n not in f.dependency:
                    f.dependency.append(n)

    def request(self, parameter=''):
        for f in self.files + self.dep_files:
            if not f.dependency:
                f.dependency.extend(std_dep_names(self.dep_modules))
        return request(self.files, parameter, extra_dep_modules=self.dep_modules,
                       extra_dep_files=self.dep_files)


EDITS = {}


def edit(fn):
    EDITS[fn.__name__] = fn
    return fn


# ------------------------------------------------------------- file layout

@edit
def file2_types(a):
    f = file('acme/lib/v1/extra.proto', P,
             messages=[message('Extra', [field('note', 1, 'string'), field('level', 2, 'enum:' + Q('ExtraKind'))])],
             enums=[enum('ExtraKind', 'EXTRA_KIND_UNSPECIFIED', 'LOW', 'HIGH')])
    a.add_file_before(f)
    a.main.message_type[0].field.append(field('extra', 40, Q('Extra')))
    a.main.message_type[0].field.append(field('extra_kind', 41, 'enum:' + Q('ExtraKind')))


@edit
def file2_service(a):
    f = file('acme/lib/v1/archive.proto', P,
             messages=[message('ArchiveBookRequest', [field('book', 1, Q('Book')), field('reason', 2, 'string')]),
                       message('ArchiveBookResponse', [field('archived', 1, Q('Book'), repeated=True)])],
             services=[service('Archive', [
                 method('ArchiveBook', Q('ArchiveBookRequest'), Q('ArchiveBookResponse'),
                        http=('post', '/v1/archive', '*'), sigs=['book,reason']),
                 method('GetBook', Q('GetBookRequest'), Q('Book'), http=('get', '/v1/{name=archive/*}')),
             ])])
    a.add_file_after(f)


@edit
def file3_chain(a):
    f1 = file('acme/lib/v1/alpha.proto', P, messages=[message('Alpha', [field('a', 1, 'string')])])
    f2 = file('acme/lib/v1/beta.proto', P, messages=[message('Beta', [field('alpha', 1, Q('Alpha')),
                                                                    field('alphas', 2, Q('Alpha'), repeated=True)])])
    f2.dependency.extend(std_dep_names(a.dep_modules) + [f1.name])
    a.files.insert(0, f2)
    a.files.insert(0, f1)
    a._dep(a.main, f2.name)
    a.main.message_type[1].field.append(field('beta', 40, Q('Beta')))


@edit
def subpkg_types(a):
    sp = P + '.sub'
    f = file('acme/lib/v1/sub/part.proto', sp, messages=[message('Part', [field('serial', 1, 'string')])])
    a.add_file_before(f)
    a.main.message_type[1].field.append(field('part', 41, f'.{sp}.Part'))


@edit
def subpkg_service(a):
    sp = P + '.sub'
    f = file('acme/lib/v1/sub/svc.proto', sp,
             messages=[message('PingRequest', [field('text', 1, 'string')]),
                       message('PingResponse', [field('text', 1, 'string')])],
             services=[service('Pinger', [method('Ping', f'.{sp}.PingRequest', f'.{sp}.PingResponse',
                                                 http=('post', '/v1/ping', '*'))])])
    a.add_file_after(f, imports_main=False)


def _other_pkg_file():
    op = 'acme.other.v1'
    return file('acme/other/v1/common.proto', op,
                messages=[message('Money', [field('units', 1, 'int64'), field('currency', 2, 'string')]),
                          message('PriceRequest', [field('name', 1, 'string'), field('at', 2, f'.{op}.Money')])],
                enums=[enum('Region', 'REGION_UNSPECIFIED', 'EU', 'US')])


@edit
def dep_pkg_types(a):
    f = _other_pkg_file()
    a.dep_files.append(f)
    a._dep(a.main, f.name)
    a.main.message_type[0].field.append(field('price', 42, '.acme.other.v1.Money'))
    a.main.message_type[0].field.append(field('region', 43, 'enum:.acme.other.v1.Region'))
    a.rpc(method('PriceBook', '.acme.other.v1.PriceRequest', '.acme.other.v1.Money',
                 http=('get', '/v1/{name=shelves/*/books/*}:price'), sigs=['name']))


@edit
def paged_request_other_package(a):
    """A paginated RPC whose request and response types come from another (installed) proto package."""
    a.need_module('google.cloud.location.locations_pb2')
    a.rpc(method('ListDepots', '.google.cloud.location.ListLocationsRequest', '.google.cloud.location.ListLocationsResponse',
                 http=('get', '/v1/{name=shelves/*}/depots')))


@edit
def empty_messages(a):
    """Messages without any field, as request and as response."""
    a.msg(message('PingRequest', []), message('PingResponse', []))
    a.rpc(method('Ping', Q('PingRequest'), Q('PingResponse'), http=('get', '/v1/ping')))


@edit
def file_named_like_rpc(a):
    """A target file whose base name is the snake-case name of an RPC of the service (showcase's echo.proto / rpc Echo), with
    RPCs declared after it that use types of that file as request and as response."""
    f = file('acme/lib/v1/echo.proto', P, messages=[
        message('EchoRequest', [field('text', 1, 'string')]), message('EchoResponse', [field('text', 1, 'string')]),
        message('ExpandRequest', [field('text', 1, 'string')]), message('CollectResponse', [field('n', 1, 'int32')])])
    a.add_file_before(f)
    a.rpc(method('Echo', Q('EchoRequest'), Q('EchoResponse'), http=('post', '/v1/echo:echo', '*')),
          method('Expand', Q('ExpandRequest'), Q('EchoResponse'), ss=True, http=('post', '/v1/echo:expand', '*')),
          method('Collect', Q('EchoRequest'), Q('CollectResponse'), http=('post', '/v1/echo:collect', '*')))


@edit
def lro_types_in_metadata_proto(a):
    """The LRO metadata type lives in a file called metadata.proto (Dataplex, AI Platform): its module gets a trailing
    underscore because every client method has a `metadata` argument."""
    f = file('acme/lib/v1/metadata.proto', P, messages=[message('OperationMetadata', [field('verb', 1, 'string'), field('pct', 2, 'int32')])])
    a.add_file_before(f)
    a.msg(message('ReindexRequest', [field('name', 1, 'string')]))
    a.rpc(method('Reindex', Q('ReindexRequest'), OPERATION, http=('post', '/v1/{name=shelves/*}:reindex', '*'),
                 lro=('Shelf', 'OperationMetadata')))


@edit
def streams_without_bidi(a):
    """A service with one server-streaming and one client-streaming RPC and no bidirectional one."""
    a.msg(message('Tick', [field('n', 1, 'int32')]))
    a.main.service.append(service('Feeds', [
        method('Watch', Q('Tick'), Q('Tick'), ss=True, http=('post', '/v1/feeds:watch', '*')),
        method('Upload', Q('Tick'), Q('Tick'), cs=True),
        method('Peek', Q('Tick'), Q('Tick'), http=('post', '/v1/feeds:peek', '*'))]))


@edit
def wkt_fields(a):
    a.msg(message('Wkt', [
        field('d', 1, '.google.protobuf.Duration'), field('s', 2, '.google.protobuf.Struct'),
        field('v', 3, '.google.protobuf.Value'), field('any', 4, '.google.protobuf.Any'),
        field('i32', 5, '.google.protobuf.Int32Value'), field('str', 6, '.google.protobuf.StringValue'),
        field('b', 7, '.google.protobuf.BoolValue'), field('lv', 8, '.google.protobuf.ListValue'),
        field('vs', 9, '.google.protobuf.Value', repeated=True), field('ts', 10, '.google.protobuf.Timestamp', repeated=True),
        field('e', 11, '.google.protobuf.Empty'), field('bytesv', 12, '.google.protobuf.BytesValue')]))
    a.rpc(method('EchoWkt', Q('Wkt'), Q('Wkt'), http=('post', '/v1/wkt:echo', '*'), sigs=['d,s', 'vs']))


@edit
def rpc_type_imports(a):
    a.need_module('google.rpc.status_pb2')
    a.need_module('google.type.date_pb2')
    a.need_module('google.type.latlng_pb2')
    a.msg(message('Visit', [field('status', 1, '.google.rpc.Status'), field('day', 2, '.google.type.Date'),
                            field('where', 3, '.google.type.LatLng'), field('name', 4, 'string')]))
    a.rpc(method('RecordVisit', Q('Visit'), Q('Visit'), http=('post', '/v1/{name=visits/*}', '*'), sigs=['name,day,where']))


@edit
def iam_types(a):
    a.need_module('google.iam.v1.iam_policy_pb2')
    a.rpc(method('GetShelfPolicy', '.google.iam.v1.GetIamPolicyRequest', '.google.iam.v1.Policy',
                 http=('get', '/v1/{resource=shelves/*}:getPolicy'), sigs=['resource']),
          # a flattened *repeated* field of a plain-protobuf request from another package
          method('TestShelfPermissions', '.google.iam.v1.TestIamPermissionsRequest', '.google.iam.v1.TestIamPermissionsResponse',
                 http=('post', '/v1/{resource=shelves/*}:testPermissions', '*'), sigs=['resource,permissions']))


@edit
def dep_message_reserved_field(a):
    """A plain-protobuf dependency message with a reserved-word field (google.api.MonitoredResource.type), used as a flattened
    parameter and as REST body (the logging / monitoring API shape)."""
    a.need_module('google.api.monitored_resource_pb2')
    r = a.req('WriteEntryRequest', field('log_name', 1, 'string'), field('resource', 2, '.google.api.MonitoredResource'),
              field('type', 3, 'string'))
    a.rpc(method('WriteEntry', r, Q('Book'), http=('post', '/v1/{log_name=logs/*}:write', '*'), sigs=['log_name,resource']),
          method('PutResource', r, Q('Book'), http=('put', '/v1/{log_name=logs/*}/resource', 'resource'), sigs=['log_name,resource,type']))


# ---------------------------------------------------------------- services

@edit
def two_services_one_file(a):
    a.main.service.append(service('Catalog', [
        method('GetBook', Q('GetBookRequest'), Q('Book'), http=('get', '/v1/catalog/{name=books/*}'), sigs=['name']),
        method('ListBooks', Q('ListBooksRequest'), Q('ListBooksResponse'), http=('get', '/v1/catalog/{parent=shelves/*}/books')),
    ], host='catalog.acme.googleapis.com:8443'))


@edit
def no_default_host(a):
    a.main.service.append(service('Hostless', [
        method('GetBook', Q('GetBookRequest'), Q('Book'), http=('get', '/v1/hostless/{name=books/*}'))], host=None))


@edit
def no_oauth_scopes(a):
    a.main.service.append(service('Scopeless', [
        method('GetBook', Q('GetBookRequest'), Q('Book'), http=('get', '/v1/scopeless/{name=books/*}'))], scopes=None))


@edit
def several_oauth_scopes(a):
    a.main.service.append(service('Scoped', [
        method('GetBook', Q('GetBookRequest'), Q('Book'), http=('get', '/v1/scoped/{name=books/*}'))],
        scopes=','.join('https://www.googleapis.com/auth/' + x for x in
                        ('cloud-platform', 'acme', 'acme.readonly', 'acme.admin', 'zebra', 'books'))))


@edit
def api_version(a):
    a.main.service.append(service('Versioned', [
        method('GetBook', Q('GetBookRequest'), Q('Book'), http=('get', '/v1/versioned/{name=books/*}')),
        # a paginated method with a path field, on a service that has an API version
        method('ListBooks', Q('ListBooksRequest'), Q('ListBooksResponse'), http=('get', '/v1/versioned/{parent=shelves/*}/books'))],
        api_version='2024-01-01'))


@edit
def deprecated_service(a):
    a.main.service.append(service('Oldie', [
        method('GetBook', Q('GetBookRequest'), Q('Book'), http=('get', '/v1/oldie/{name=books/*}'), deprecated=True)],
        deprecated=True))


# ----------------------------------------------------------------- methods

@edit
def void_no_http(a):
    r = a.req('PurgeRequest', field('shelf', 1, 'string'))
    a.rpc(method('Purge', r, EMPTY))


@edit
def server_stream_no_http(a):
    r = a.req('TailRequest', field('shelf', 1, 'string'))
    a.rpc(method('Tail', r, Q('Book'), ss=True))


@edit
def lro_empty(a):
    r = a.req('BurnRequest', field('name', 1, 'string'))
    a.msg(message('BurnMetadata', [field('pct', 1, 'int32')]))
    a.rpc(method('Burn', r, OPERATION, http=('post', '/v1/{name=shelves/*}:burn', '*'),
                 lro=('google.protobuf.Empty', P + '.BurnMetadata'), sigs=['name']))


@edit
def raw_operation(a):
    r = a.req('RawOpRequest', field('name', 1, 'string'))
    a.rpc(method('RawOp', r, OPERATION, http=('post', '/v1/{name=shelves/*}:raw', '*')))


@edit
def paged_scalar_items(a):
    r = a.req('ListTitlesRequest', field('parent', 1, 'string'), field('page_size', 2, 'int32'),
              field('page_token', 3, 'string'))
    a.msg(message('ListTitlesResponse', [field('titles', 1, 'string', repeated=True),
                                         field('next_page_token', 2, 'string')]))
    a.rpc(method('ListTitles', r, Q('ListTitlesResponse'), http=('get', '/v1/{parent=shelves/*}/titles'), sigs=['parent']))


@edit
def paged_map_items(a):
    r = a.req('ListIndexRequest', field('parent', 1, 'string'), field('page_size', 2, 'int32'),
              field('page_token', 3, 'string'))
    mf, me = map_field(Q('ListIndexResponse'), 'index', 1, 'string', Q('Book'))
    a.msg(message('ListIndexResponse', [mf, field('next_page_token', 2, 'string')], nested=[me]))
    a.rpc(method('ListIndex', r, Q('ListIndexResponse'), http=('get', '/v1/{parent=shelves/*}/index')))


@edit
def paged_max_results(a):
    r = a.req('ListOldRequest', field('parent', 1, 'string'), field('max_results', 2, '.google.protobuf.UInt32Value'),
              field('page_token', 3, 'string'))
    a.msg(message('ListOldResponse', [field('items', 1, Q('Book'), repeated=True),
                                      field('next_page_token', 2, 'string')]))
    a.rpc(method('ListOld', r, Q('ListOldResponse'), http=('get', '/v1/{parent=shelves/*}/old')))


@edit
def paged_other_file(a):
    # a second paged RPC whose request/response/item types live in another file of the package
    f = file('acme/lib/v1/shelves.proto', P,
             messages=[message('ListShelvesRequest', [field('page_size', 1, 'int32'), field('page_token', 2, 'string')]),
                       message('ShelfInfo', [field('name', 1, 'string')]),
                       message('ListShelvesResponse', [field('shelves', 1, Q('ShelfInfo'), repeated=True),
                                                       field('next_page_token', 2, 'string')])])
    a.add_file_before(f)
    a.rpc(method('ListShelves', Q('ListShelvesRequest'), Q('ListShelvesResponse'), http=('get', '/v1/shelves')))


@edit
def deprecated_method(a):
    a.rpc(method('GetBookOld', Q('GetBookRequest'), Q('Book'), http=('get', '/v1/old/{name=shelves/*/books/*}'),
                 deprecated=True, sigs=['name']))


@edit
def additional_bindings(a):
    r = a.req('FindRequest', field('name', 1, 'string'), field('parent', 2, 'string'), field('query', 3, 'string'))
    a.rpc(method('Find', r, Q('Book'), http=('get', '/v1/{name=shelves/*/books/*}:find', None, [
        ('get', '/v1/{parent=shelves/*}/books:find'), ('post', '/v1/books:find', '*')])))


@edit
def request_from_other_file(a):
    f = file('acme/lib/v1/requests.proto', P,
             messages=[message('CountRequest', [field('parent', 1, 'string')]),
                       message('CountResponse', [field('n', 1, 'int64')])])
    a.add_file_before(f)
    a.rpc(method('Count', Q('CountRequest'), Q('CountResponse'), http=('get', '/v1/{parent=shelves/*}:count'),
                 sigs=['parent']))


@edit
def extended_operation(a):
    a.msg(message('Operation', [
        field('name', 1, 'string', operation_field=1), field('http_error_status_code', 2, 'int32', operation_field=3),
        field('http_error_message', 3, 'string', operation_field=4), field('status', 4, 'enum:' + Q('Operation.Status'),
                                                                           operation_field=2)],
        enums=[enum('Status', 'UNDEFINED_STATUS', 'DONE', 'PENDING', 'RUNNING')]))
    a.msg(message('GetOpRequest', [field('operation', 1, 'string', operation_response_field='name'),
                                           field('project', 2, 'string')]))
    a.msg(message('StartXRequest', [field('project', 1, 'string', operation_request_field='project'),
                                    field('what', 2, 'string')]))
    a.main.service.append(service('Operations', [
        method('Get', Q('GetOpRequest'), Q('Operation'),
               http=('get', '/v1/projects/{project}/xops/{operation}'), operation_polling=True,
               sigs=['project,operation'])]))
    a.rpc(method('StartX', Q('StartXRequest'), Q('Operation'), http=('post', '/v1/projects/{project}:startx', '*'),
                 operation_service='Operations', sigs=['project,what']))


@edit
def keyword_method(a):
    r = a.req('ImportRequest', field('source', 1, 'string'))
    a.rpc(method('Import', r, Q('Book'), http=('post', '/v1/books:import', '*'), sigs=['source']))


@edit
def transport_unsafe_method(a):
    r = a.req('ChannelRequest', field('name', 1, 'string'))
    a.rpc(method('CreateChannel', r, Q('Book'), http=('post', '/v1/channels', '*')),
          method('GrpcChannel', r, Q('Book'), http=('post', '/v1/grpcchannels', '*')),
          method('OperationsClient', r, Q('Book'), http=('post', '/v1/opsclients', '*')))


# -------------------------------------------------------------------- types

@edit
def nested_deep(a):
    l4 = message('L4', [field('up', 1, Q('Deep.L1.L2')), field('e', 2, 'enum:' + Q('Deep.L1.Color'))])
    l3 = message('L3', [field('l4', 1, Q('Deep.L1.L2.L3.L4')), field('l4s', 2, Q('Deep.L1.L2.L3.L4'), repeated=True)],
                 nested=[l4])
    l2 = message('L2', [field('l3', 1, Q('Deep.L1.L2.L3')), field('sib', 2, Q('Deep.L1.Sib'))], nested=[l3])
    l1 = message('L1', [field('l2', 1, Q('Deep.L1.L2'))], nested=[l2, message('Sib', [field('x', 1, 'int32')])],
                 enums=[enum('Color', 'COLOR_UNSPECIFIED', 'RED')])
    a.msg(message('Deep', [field('l1', 1, Q('Deep.L1')), field('leaf', 2, Q('Deep.L1.L2.L3.L4')),
                           field('later', 3, Q('Later'))], nested=[l1]))
    a.msg(message('Later', [field('deep', 1, Q('Deep')), field('c', 2, 'enum:' + Q('Deep.L1.Color'))]))
    a.rpc(method('EchoDeep', Q('Deep'), Q('Deep'), http=('post', '/v1/deep:echo', '*')))


@edit
def recursive_mutual(a):
    mf, me = map_field(Q('Ping'), 'by_name', 3, 'string', Q('Pong'))
    a.msg(message('Ping', [field('pong', 1, Q('Pong')), field('pings', 2, Q('Ping'), repeated=True), mf,
                           field('b', 4, 'string', oneof=0), field('a', 5, Q('Ping'), oneof=0)],
                  nested=[me], oneofs=['alt']))
    a.msg(message('Pong', [field('ping', 1, Q('Ping'))]))
    a.rpc(method('EchoPing', Q('Ping'), Q('Pong'), http=('post', '/v1/ping:echo', '*')))


@edit
def recursive_oneof_first(a):
    # first member of a oneof reaches its own type (DESIGN 9/D5)
    a.msg(message('Tree', [field('left', 1, Q('Tree'), oneof=0), field('leaf', 2, 'string', oneof=0)], oneofs=['node']))
    a.rpc(method('EchoTree', Q('Tree'), Q('Tree'), http=('post', '/v1/tree:echo', '*')))


@edit
def enum_alias(a):
    a.main.enum_type.append(enum('Mood', ('MOOD_UNSPECIFIED', 0), ('HAPPY', 1), ('GLAD', 1), ('SAD', 5), allow_alias=True))
    a.main.message_type[1].field.append(field('mood', 44, 'enum:' + Q('Mood')))


@edit
def all_scalars(a):
    from .desc import SCALAR_NAMES
    fs = [field(f'f_{t}', i + 1, t) for i, t in enumerate(SCALAR_NAMES)]
    fs += [field(f'r_{t}', i + 21, t, repeated=True) for i, t in enumerate(SCALAR_NAMES)]
    fs += [field(f'o_{t}', i + 41, t, optional=True) for i, t in enumerate(SCALAR_NAMES)]
    a.msg(message('Scalars', fs))
    a.rpc(method('EchoScalars', Q('Scalars'), Q('Scalars'), http=('post', '/v1/scalars:echo', '*')))


@edit
def required_query_scalars(a):
    from .desc import SCALAR_NAMES
    fs = [field('name', 1, 'string', required=True)]
    fs += [field(f'q_{t}', i + 2, t, required=True) for i, t in enumerate(SCALAR_NAMES) if t != 'bytes']
    fs.append(field('q_kind', 30, 'enum:' + Q('Kind'), required=True))
    a.msg(message('QueryRequest', fs))
    a.rpc(method('Query', Q('QueryRequest'), Q('Book'), http=('get', '/v1/{name=shelves/*}:query'), sigs=['name']))


# ---------------------------------------------------------------- resources

@edit
def resource_multi_pattern(a):
    a.msg(message('Loan', [field('name', 1, 'string')],
                  resource=(f'{DOM}/Loan', 'shelves/{shelf}/loans/{loan}', 'readers/{reader}/loans/{loan}')))
    a.msg(message('GetLoanRequest', [field('name', 1, 'string', required=True, ref=f'{DOM}/Loan')]))
    a.rpc(method('GetLoan', Q('GetLoanRequest'), Q('Loan'), http=('get', '/v1/{name=shelves/*/loans/*}'), sigs=['name']))


@edit
def file_level_resource(a):
    from google.api import resource_pb2
    r = a.main.options.Extensions[resource_pb2.resource_definition].add()
    r.type = f'{DOM}/Reader'
    r.pattern.append('readers/{reader}')
    r2 = a.main.options.Extensions[resource_pb2.resource_definition].add()
    r2.type = 'cloudresourcemanager.googleapis.com/Project'
    r2.pattern.append('projects/{project}')
    a.msg(message('GetReaderRequest', [field('name', 1, 'string', required=True, ref=f'{DOM}/Reader'),
                                       field('project', 2, 'string', ref='cloudresourcemanager.googleapis.com/Project')]))
    a.rpc(method('GetReader', Q('GetReaderRequest'), Q('Shelf'), http=('get', '/v1/{name=readers/*}'), sigs=['name']))


@edit
def child_type_ref(a):
    a.msg(message('ListChildrenRequest', [field('parent', 1, 'string', required=True, child_ref=f'{DOM}/Book')]))
    a.rpc(method('ListChildren', Q('ListChildrenRequest'), Q('ListBooksResponse'),
                 http=('get', '/v1/{parent=shelves/*}/children'), sigs=['parent']))


@edit
def resource_separators(a):
    a.msg(message('Edition', [field('name', 1, 'string')],
                  resource=(f'{DOM}/Edition', 'shelves/{shelf}/editions/{year}-{print}~{lang}')))
    a.msg(message('Wild', [field('name', 1, 'string')], resource=(f'{DOM}/Wild', '*')))
    a.msg(message('Tail', [field('name', 1, 'string')], resource=(f'{DOM}/Tail', 'tails/{tail=**}')))
    # a singleton sub-resource: literal text after the last variable
    a.msg(message('ShelfSettings', [field('name', 1, 'string')], resource=(f'{DOM}/ShelfSettings', 'shelves/{shelf}/settings')))
    a.msg(message('GetEditionRequest', [field('name', 1, 'string', ref=f'{DOM}/Edition'),
                                        field('wild', 2, 'string', ref=f'{DOM}/Wild'),
                                        field('tail', 3, 'string', ref=f'{DOM}/Tail'),
                                        field('settings', 4, 'string', ref=f'{DOM}/ShelfSettings')]))
    a.rpc(method('GetEdition', Q('GetEditionRequest'), Q('Edition'), http=('get', '/v1/{name=shelves/*/editions/*}')))


# --------------------------------------------------------------- collisions

@edit
def message_named_like_module(a):
    # message whose snake name equals the proto module name ("library") and a
    # field whose name equals an imported module
    a.msg(message('Wrapper', [field('timestamp', 1, '.google.protobuf.Timestamp'),
                              field('field_mask', 2, '.google.protobuf.FieldMask'),
                              field('library', 3, 'string')]))
    a.rpc(method('GetLibrary', Q('GetBookRequest'), Q('Wrapper'), http=('get', '/v1/{name=libraries/*}')))


@edit
def nested_field_named_like_module(a):
    """A *nested* message whose first field is named like a sibling types module (stickers.proto -> `stickers`) and whose
    second field needs that module again: the module has to be imported under an alias."""
    f = file('acme/lib/v1/stickers.proto', P, messages=[message('Tag', [field('t', 1, 'string')]), message('Label', [field('l', 1, 'string')])])
    a.add_file_before(f)
    a.msg(message('Crate', [field('name', 1, 'string'), field('slot', 2, Q('Crate.Slot'))],
                  nested=[message('Slot', [field('stickers', 1, Q('Tag')), field('label', 2, Q('Label'))])]))
    a.rpc(method('GetCrate', Q('GetBookRequest'), Q('Crate'), http=('get', '/v1/{name=crates/*}')))


@edit
def service_only_file(a):
    """A target file that declares a service and no message or enum."""
    f = file('acme/lib/v1/catalog_service.proto', P, services=[service('CatalogOnly', [
        method('LookUp', Q('GetBookRequest'), Q('Book'), http=('get', '/v1/{name=catalog/*}'), sigs=['name'])])])
    a.add_file_after(f)


@edit
def target_named_like_dependency(a):
    """A target file with the base name of a dependency file it takes a type from (status.proto / google/rpc/status.proto)."""
    a.need_module('google.rpc.status_pb2')
    f = file('acme/lib/v1/status.proto', P, messages=[message('JobStatus', [field('status', 1, '.google.rpc.Status'), field('job', 2, 'string')])])
    a.add_file_before(f)
    a._dep(f, 'google/rpc/status.proto')
    a.rpc(method('GetJobStatus', Q('GetBookRequest'), Q('JobStatus'), http=('get', '/v1/{name=jobs/*}')))


@edit
def same_basename_imports(a):
    f1 = file('acme/lib/v1/common.proto', P, messages=[message('LocalCommon', [field('x', 1, 'string')])])
    a.add_file_before(f1)
    f2 = _other_pkg_file()
    if not any(f.name == f2.name for f in a.dep_files):
        a.dep_files.append(f2)
    a._dep(a.main, f2.name)
    a.msg(message('Both', [field('local', 1, Q('LocalCommon')), field('money', 2, '.acme.other.v1.Money')]))
    a.rpc(method('EchoBoth', Q('Both'), Q('Both'), http=('post', '/v1/both:echo', '*'), sigs=['local,money']))


@edit
def reserved_fields(a):
    a.msg(message('Reserved', [field('class', 1, 'string'), field('from', 2, 'string'), field('import', 3, 'int32'),
                               field('format', 4, 'string'), field('license', 5, 'string'), field('next', 6, 'string'),
                               field('any', 7, 'string'), field('property', 8, 'string'),
                               field('in', 9, Q('Reserved.Inner'))],
                  nested=[message('Inner', [field('not', 1, 'string'), field('name', 2, 'string')])]))
    a.rpc(method('EchoReserved', Q('Reserved'), Q('Reserved'),
                 http=('post', '/v1/{class=reserved/*}', 'in'), sigs=['class,from,import', 'in']))


# ----------------------------------------------------------- signatures etc.

@edit
def oneof_optional_signature(a):
    a.msg(message('Choice', [field('name', 1, 'string'), field('by_id', 2, 'int64', oneof=0),
                             field('by_title', 3, 'string', oneof=0), field('by_book', 4, Q('Book'), oneof=0),
                             field('limit', 5, 'int32', optional=True), field('note', 6, 'string', optional=True)],
                  oneofs=['selector']))
    a.rpc(method('Choose', Q('Choice'), Q('Book'), http=('post', '/v1/{name=shelves/*}:choose', '*'),
                 sigs=['name,by_id', 'name,by_title,limit', 'by_book,note']),
          # one overload per alternative, listed in an order that differs from the field numbers
          method('ChooseLatest', Q('Choice'), Q('Book'), http=('post', '/v1/{name=shelves/*}:chooseLatest', '*'),
                 sigs=['name,by_title', 'name,by_id']))


@edit
def path_vars_same_parent(a):
    """Two path variables that are sub-fields of the same message field (id-keyed resources)."""
    a.msg(message('Volume', [field('shelf_id', 1, 'string'), field('volume_id', 2, 'string'), field('title', 3, 'string')]),
          message('UpdateVolumeRequest', [field('volume', 1, Q('Volume')), field('force', 2, 'bool')]))
    a.rpc(method('UpdateVolume', Q('UpdateVolumeRequest'), Q('Volume'),
                 http=('patch', '/v1/shelves/{volume.shelf_id}/volumes/{volume.volume_id}', 'volume'), sigs=['volume']))


@edit
def several_oneofs(a):
    """Request and response with three real oneofs each (and a proto3-optional field between them)."""
    def fields():
        return [field('name', 1, 'string'), field('by_id', 2, 'int64', oneof=0), field('by_title', 3, 'string', oneof=0),
                field('as_text', 4, 'string', oneof=1), field('as_book', 5, Q('Book'), oneof=1),
                field('note', 6, 'string', optional=True),
                field('zeta', 7, 'bool', oneof=2), field('alpha', 8, 'string', oneof=2)]
    a.msg(message('PickRequest', fields(), oneofs=['selector', 'format', 'extra']),
          message('PickResponse', fields(), oneofs=['selector', 'format', 'extra']))
    a.rpc(method('Pick', Q('PickRequest'), Q('PickResponse'), http=('post', '/v1/{name=shelves/*}:pick', '*')))


@edit
def repeated_map_signature(a):
    mf, me = map_field(Q('BatchRequest'), 'attrs', 3, 'string', 'string')
    mf2, me2 = map_field(Q('BatchRequest'), 'books_by_id', 4, 'int32', Q('Book'))
    a.msg(message('BatchRequest', [field('parent', 1, 'string'), field('names', 2, 'string', repeated=True), mf, mf2,
                                   field('books', 5, Q('Book'), repeated=True),
                                   field('kinds', 6, 'enum:' + Q('Kind'), repeated=True)], nested=[me, me2]))
    a.rpc(method('Batch', Q('BatchRequest'), Q('ListBooksResponse'), http=('post', '/v1/{parent=shelves/*}:batch', '*'),
                 sigs=['parent,names,attrs', 'books,books_by_id,kinds']))


@edit
def flattened_map_value_other_file(a):
    """A flattened map field whose value message is declared in another file of the API and used nowhere else in the service."""
    f = file('acme/lib/v1/pins.proto', P, messages=[message('Pin', [field('at', 1, 'string')])])
    a.add_file_before(f)
    mf, me = map_field(Q('PinRequest'), 'pins_by_id', 2, 'string', Q('Pin'))
    a.msg(message('PinRequest', [field('parent', 1, 'string'), mf], nested=[me]))
    a.rpc(method('PinBooks', Q('PinRequest'), Q('Book'), http=('post', '/v1/{parent=shelves/*}:pin', '*'), sigs=['parent,pins_by_id']))


@edit
def explicit_routing(a):
    r = a.req('RouteRequest', field('name', 1, 'string'), field('table', 2, 'string'), field('app', 3, Q('Shelf')))
    a.rpc(method('Route', r, Q('Book'), http=('post', '/v1/{name=shelves/*}:route', '*'),
                 routing=[('name', ''), ('table', '{table_location=regions/*}/**'), ('app.name', '{routing_id=**}'),
                          ('table', '{routing_id=projects/*}/**')]))
    # templates with literal segments before / after the named segment, one parameter per method
    a.rpc(method('RoutePrefixed', r, Q('Book'), http=('post', '/v1/{name=shelves/*}:routep', '*'),
                 routing=[('table', 'shelves/*/{book_id=books/*}')]),
          method('RouteInfix', r, Q('Book'), http=('post', '/v1/{name=shelves/*}:routei', '*'),
                 routing=[('table', 'shelves/*/books/{leaf_id=*}/pages/*')]),
          # one request value that resolves two different keys
          method('RouteTwoKeys', r, Q('Book'), http=('post', '/v1/{name=shelves/*/books/*}:route2', '*'),
                 routing=[('name', '{shelf_id=shelves/*}/books/*'), ('name', 'shelves/*/{book_id=books/*}')]),
          # explicit routing on a paginated method
          method('RouteList', Q('ListBooksRequest'), Q('ListBooksResponse'), http=('get', '/v1/{parent=shelves/*}/routedBooks'),
                 routing=[('parent', '{shelf_id=shelves/*}')], sigs=['parent']),
          # the empty annotation (AIP-4222: no routing header, not even the implicit one)
          method('RouteNone', r, Q('Book'), http=('post', '/v1/{name=shelves/*}:routen', '*'), routing=[]))


@edit
def nested_path_vars(a):
    r = a.req('DeepPathRequest', field('book', 1, Q('Book')), field('shelf', 2, Q('Shelf')), field('id', 3, 'int64'),
              field('flag', 4, 'bool'))
    a.rpc(method('DeepPath', r, Q('Book'),
                 http=('put', '/v1/{book.author.given=authors/*}/{shelf.name=shelves/*}/ids/{id}/flags/{flag}', 'book')))


COMMENT_TEXTS = [
    'Plain sentence about the thing.',
    'Uses `backticks`, *stars*, _underscores_ and [links][google.example.Thing].\n\nSecond paragraph:\n\n- item one\n- item two\n',
    'A very long line ' + 'word ' * 40 + 'end.',
    'Example:\n\n    code block | with pipes\n    more\n',
    "Quotes 'single' and \"double\" and a colon at the end:",
]


def comment_chooser(kind, full):
    import zlib
    return ' ' + COMMENT_TEXTS[zlib.crc32(full.encode()) % len(COMMENT_TEXTS)] + '\n'


@edit
def comments_markup(a):
    from .desc import add_comments
    for f in a.files:
        add_comments(f, comment_chooser)


EDIT_NAMES = list(EDITS)


def build(history, parameter=''):
    """Replay an edit history on a fresh baseline -> CodeGeneratorRequest."""
    a = Api()
    # comments last so that they cover everything the other edits added
    for name in sorted(history, key=lambda n: (n == 'comments_markup', EDIT_NAMES.index(n))):
        EDITS[name](a)
    return a.request(parameter)
