"""C10 wrapper process: generate exactly as gapic/cli/generate.py does, then (after the
response has been serialised, so that looking cannot influence it) dump the iteration
order of every unordered container on the schema model.

usage: python -m mc.detwrap <request.bin> <response.bin> <orders.json>
"""
import json
import os
import sys


def main():
    req_path, res_path, orders_path = sys.argv[1:4]
    clock = os.environ.get('VERIF_FAKE_EPOCH')
    if clock:
        import time
        import datetime as _dt
        t0 = float(clock)
        time.time = lambda: t0
        real = _dt.datetime

        class FakeDT(real):
            @classmethod
            def now(cls, tz=None):
                return real.fromtimestamp(t0, tz)

            @classmethod
            def utcnow(cls):
                return real.utcfromtimestamp(t0)

            @classmethod
            def today(cls):
                return real.fromtimestamp(t0)
        _dt.datetime = FakeDT
    from google.protobuf.compiler import plugin_pb2
    from gapic import generator
    from gapic.schema import api
    from gapic.utils import Options
    with open(req_path, 'rb') as f:
        req = plugin_pb2.CodeGeneratorRequest.FromString(f.read())
    opts = Options.build(req.parameter)
    package = os.path.commonprefix(
        [p.package for p in req.proto_file if p.name in req.file_to_generate]).rstrip('.')
    api_schema = api.API.build(req.proto_file, opts=opts, package=package)
    res = generator.Generator(opts).get_response(api_schema, opts)
    with open(res_path, 'wb') as f:
        f.write(res.SerializeToString())

    orders = {}

    def hashed_by(x):
        import inspect
        if isinstance(x, str):
            return 'seed'
        if isinstance(x, type) or type(x).__hash__ is object.__hash__:
            return 'address'
        try:
            src = inspect.getsource(type(x).__hash__)
        except (OSError, TypeError):
            return 'seed'        # dataclass-generated hash over the fields (strings inside)
        return 'address' if 'id(' in src else 'seed'

    def note(site, it, key=lambda x: str(x)):
        try:
            vals = [key(x) for x in it]
        except Exception as e:       # a site that does not exist on this tree
            vals = None
        if vals is not None and len(vals) >= 2:
            # sets of str follow PYTHONHASHSEED; sets of objects hash by address (allocator / ASLR)
            orders[site] = dict(order=vals, by=hashed_by(next(iter(it))))

    for sname, svc in api_schema.services.items():
        note(f'service:{sname}:resource_messages', svc.resource_messages, lambda m: m.resource_type_full_path)
        note(f'service:{sname}:names', svc.names)
        for mname, m in svc.methods.items():
            if m.retry is not None:
                note(f'method:{sname}.{mname}:retryable_exceptions', m.retry.retryable_exceptions, lambda e: e.__name__)
    for pname, proto in api_schema.protos.items():
        note(f'proto:{pname}:names', proto.names)
        for mname, msg in proto.all_messages.items():
            note(f'message:{mname}:recursive_field_types', msg.recursive_field_types, lambda t: str(t.ident))
            note(f'message:{mname}:recursive_resource_fields', msg.recursive_resource_fields, lambda f_: f_.name)
    with open(orders_path, 'w') as f:
        json.dump(orders, f)


if __name__ == '__main__':
    main()
