"""Reference resource-pattern tokenizer (AIP-122/4231), independent of gapic."""
import re

TOKEN_RE = re.compile(r'\{([A-Za-z0-9_\-]+)(=\*\*)?\}')


def tokenize(pattern):
    """-> [('lit', text) | ('var', name, is_dstar)]"""
    out, pos = [], 0
    for m in TOKEN_RE.finditer(pattern):
        if m.start() > pos:
            out.append(('lit', pattern[pos:m.start()]))
        out.append(('var', m.group(1), bool(m.group(2))))
        pos = m.end()
    if pos < len(pattern):
        out.append(('lit', pattern[pos:]))
    return out


def variables(pattern):
    return [t[1] for t in tokenize(pattern) if t[0] == 'var']


def delimiters(pattern):
    """Characters that delimit variables in this pattern: '/' and every literal
    character adjacent to a variable inside a segment."""
    d = {'/'}
    for t in tokenize(pattern):
        if t[0] == 'lit':
            for seg_part in t[1].split('/'):
                pass
    toks = tokenize(pattern)
    for i, t in enumerate(toks):
        if t[0] == 'lit':
            txt = t[1]
            # a literal that sits between two variables of one segment, e.g. '-' '~' '.' '_'
            if '/' not in txt and 0 < i < len(toks) - 1:
                d.update(txt)
    return d


def build(pattern, values):
    return ''.join(t[1] if t[0] == 'lit' else values[t[1]] for t in tokenize(pattern))


def matches(pattern, s):
    """Does s instantiate pattern with non-empty, delimiter-free variable values
    ('/' allowed inside a {v=**} variable)?"""
    if pattern == '*':
        return True
    toks = tokenize(pattern)
    delims = delimiters(pattern)

    def rec(ti, pos):
        if ti == len(toks):
            return pos == len(s)
        t = toks[ti]
        if t[0] == 'lit':
            return s.startswith(t[1], pos) and rec(ti + 1, pos + len(t[1]))
        for end in range(pos + 1, len(s) + 1):
            seg = s[pos:end]
            bad = (delims - {'/'}) if t[2] else delims
            if any(ch in bad for ch in seg):
                break
            if rec(ti + 1, end):
                return True
        return False
    return rec(0, 0)


def shape(pattern):
    """Abstract shape: sequence of segment classes (for fingerprints)."""
    out = []
    for seg in pattern.split('/'):
        toks = tokenize(seg)
        vs = [t for t in toks if t[0] == 'var']
        if not vs:
            out.append('L')
        elif len(vs) == 1:
            out.append('D' if vs[0][2] else 'V')
        else:
            out.append('V' + ''.join(t[1] for t in toks if t[0] == 'lit') + f'x{len(vs)}')
    return '/'.join(out)
