"""Reference AIP-4222 evaluator (written from the AIP; never imports gapic or api_core).

Template grammar used by google.api.routing: segments separated by '/', each a
literal, '*' (exactly one non-empty segment), '**' (zero or more segments), and at
most one named capture '{key=sub/template}' ('{key}' == '{key=*}') which may span
several segments.  The whole field value must match the whole template.
"""
import re


def parse_template(t):
    """-> (key, tokens) where tokens = [(kind, text, captured)], kind in lit,*,**."""
    m = re.search(r'\{([^=}]+)(?:=([^}]*))?\}', t)
    if not m:
        return None, [_tok(s, False) for s in t.split('/')]
    key, sub = m.group(1), m.group(2) if m.group(2) is not None else '*'
    pre, post = t[:m.start()], t[m.end():]
    toks = []
    if pre:
        assert pre.endswith('/'), t
        toks += [_tok(s, False) for s in pre[:-1].split('/')]
    toks += [_tok(s, True) for s in sub.split('/')]
    if post:
        assert post.startswith('/'), t
        toks += [_tok(s, False) for s in post[1:].split('/')]
    return key, toks


def _tok(s, cap):
    return ('**' if s == '**' else '*' if s == '*' else 'lit', s, cap)


def match(tokens, value):
    """Full match of value against tokens -> captured text ('' if nothing captured) or None."""
    segs = value.split('/')

    def rec(ti, si, cap):
        if ti == len(tokens):
            return cap if si == len(segs) else None
        kind, text, c = tokens[ti]
        if kind == 'lit':
            if si < len(segs) and segs[si] == text:
                return rec(ti + 1, si + 1, cap + [segs[si]] if c else cap)
            return None
        if kind == '*':
            if si < len(segs) and segs[si] != '':
                return rec(ti + 1, si + 1, cap + [segs[si]] if c else cap)
            return None
        # '**': zero or more segments, longest first
        for n in range(len(segs) - si, -1, -1):
            r = rec(ti + 1, si + n, cap + segs[si:si + n] if c else cap)
            if r is not None:
                return r
        return None

    # a leading '**' may also match the empty string as zero segments
    if value == '' and all(k == '**' for k, _, _ in tokens):
        return ''
    r = rec(0, 0, [])
    return None if r is None else '/'.join(r)


def explicit(params, get):
    """params: [(field, template)], get(field) -> str value ('' when unset).
    Later parameters override earlier ones with the same key; empty/non-matching skipped."""
    out = {}
    for fld, tmpl in params:
        v = get(fld)
        if not tmpl:
            if v:
                out[fld] = v
            continue
        key, toks = parse_template(tmpl)
        cap = match(toks, v) if v != '' or True else None
        if cap:
            out[key or fld] = cap
    return out


def key_of(fld, tmpl):
    if not tmpl:
        return fld
    return parse_template(tmpl)[0] or fld


def path_variables(uri):
    """Variables of an http path template, in order: '{a.b=x/*}' -> 'a.b'."""
    return [m.group(1) for m in re.finditer(r'\{([^=}]+)(?:=[^}]*)?\}', uri)]


def instantiate(tokens, star='x1', dstar='y/z'):
    segs = []
    for kind, text, _ in tokens:
        if kind == 'lit':
            segs.append(text)
        elif kind == '*':
            segs.append(star)
        elif dstar != '':
            segs.append(dstar)
    return '/'.join(segs)


def candidate_values(tmpl):
    """Bounded palette of field values around one template (the reference decides which match)."""
    if not tmpl:
        return ['', 'plain', 'a b&c=d%e+/ü']
    _, toks = parse_template(tmpl)
    canon = instantiate(toks)
    vals = ['', canon, instantiate(toks, dstar=''), instantiate(toks, star='a b&c=d%e+ü', dstar='p q/r&s'),
            'zzz/' + canon, canon + '/extra', canon.rsplit('/', 1)[0] if '/' in canon else 'q/w', canon + '/']
    out = []
    for v in vals:
        if v not in out:
            out.append(v)
    return out
