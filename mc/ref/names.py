"""Reference naming model, written from the documented conventions (never imports gapic).

RESERVED is a frozen snapshot of the generator's reserved-word list taken at the
pinned commit: a change that drops a word from the list is still tested on it."""
import keyword
import re

RESERVED = frozenset("""any format yield await False return continue as pass next class list
breakpoint import mapping zip locals max and finally dir def elif from nonlocal min not object
global with else __peg_parser__ del range open assert all except while license raise True
lambda for or if in async slice is break hash None try type exec help ignore_unknown_fields
self cls""".split())

VERSION_RE = re.compile(r'^v[0-9]+(p[0-9]+)?((alpha|beta)[0-9]*)?$')


def py_field(name):
    """Python attribute of a proto field: one trailing underscore iff reserved."""
    return name + '_' if name in RESERVED else name


def snake(s):
    """CamelCase -> snake_case for plain identifiers (Foo, FooBar, GetIamPolicy)."""
    out = []
    for i, ch in enumerate(s):
        if ch.isupper() and i > 0 and (s[i - 1].islower() or s[i - 1].isdigit()
                                       or (i + 1 < len(s) and s[i + 1].islower() and s[i - 1] != '_')):
            out.append('_')
        out.append(ch.lower())
    return ''.join(out)


def py_method(rpc_name):
    """Client method for an RPC: snake case, one trailing underscore iff a Python keyword."""
    n = snake(rpc_name)
    return n + '_' if keyword.iskeyword(n) else n


def split_package(pkg):
    """'a.b.name.v1' -> (('a','b'), 'name', 'v1'); version '' when absent."""
    parts = pkg.split('.')
    ver_at = next((i for i, p in enumerate(parts) if VERSION_RE.match(p)), None)
    if ver_at is not None and ver_at >= 1:
        return tuple(parts[:ver_at - 1]), parts[ver_at - 1], parts[ver_at]
    return tuple(parts[:-1]), parts[-1], ''


def import_package(pkg, name=None, namespace=None, old_naming=False):
    """Versioned import package of the library for proto package `pkg`."""
    ns, nm, ver = split_package(pkg)
    if name:
        nm = name.replace(' ', '_').lower()
    if namespace is not None:
        ns = tuple(s.lower() for s in '.'.join(namespace).split('.'))
    sep = '.' if old_naming else '_'
    mod = nm + (sep + ver if ver else '')
    return '.'.join(ns + (mod,))
