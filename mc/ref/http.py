"""Reference google.api.http transcoding *inverse* (never imports gapic / api_core).

Given what a server saw (verb, URL path, query string, JSON body) and the bindings
declared on the method in the *input* descriptor, find a declared binding the
verb+path instantiate, extract its variables, and rebuild the request message from
path + body + query with a strict proto3-JSON reader (keys must be the lowerCamel
json names).  Any field that arrives twice is reported.
"""
import base64
import json
import math
import re
import urllib.parse

from google.protobuf import json_format
from google.protobuf.descriptor import FieldDescriptor as FD

from . import routing

VAR_RE = re.compile(r'\{([^=}]+)(?:=([^}]*))?\}')


class Mismatch(Exception):
    def __init__(self, kind, detail, key=''):
        super().__init__(f'{kind}: {detail}')
        self.kind, self.detail, self.key = kind, detail, key


def bindings_of(http_rule):
    """google.api.HttpRule -> [(verb, uri, body)] primary first."""
    out = []
    for r in [http_rule] + list(http_rule.additional_bindings):
        w = r.WhichOneof('pattern')
        if w == 'custom':
            out.append((r.custom.kind, r.custom.path, r.body))
        elif w:
            out.append((w, getattr(r, w), r.body))
    return out


def normalize(msg):
    """Empty-but-present singular sub-messages cannot be told from absent ones in a URL: drop their presence."""
    for fd, val in list(msg.ListFields()):
        if fd.type != FD.TYPE_MESSAGE:
            continue
        if _is_map(fd):
            vfd = fd.message_type.fields_by_name['value']
            if vfd.type == FD.TYPE_MESSAGE:
                for v in val.values():
                    normalize(v)
        elif fd.label == FD.LABEL_REPEATED:
            for v in val:
                normalize(v)
        else:
            normalize(val)
            if val.ByteSize() == 0 and not val.DESCRIPTOR.full_name.startswith(WKT_PREFIX):
                msg.ClearField(fd.name)
    return msg


def variables(uri):
    return [(m.group(1), m.group(2) or '*') for m in VAR_RE.finditer(uri)]


def path_regex(uri):
    """Regex over the *encoded* URL path; captures are still percent-encoded."""
    out, pos, names = '', 0, []
    for i, m in enumerate(VAR_RE.finditer(uri)):
        out += re.escape(uri[pos:m.start()])
        sub = m.group(2) or '*'
        segs = []
        for s in sub.split('/'):
            segs.append('.*' if s == '**' else '[^/]+' if s == '*' else re.escape(s))
        pat = ''
        for j, s in enumerate(segs):
            if j and s == '.*':
                pat += '(?:/.*)?'
            else:
                pat += ('/' if j else '') + s
        out += f'(?P<v{i}>{pat})'
        names.append(m.group(1))
        pos = m.end()
    out += re.escape(uri[pos:])
    return re.compile('^' + out + '$'), names


def value_matches(sub_template, value):
    """Does a field value instantiate the variable's sub-template?"""
    if value == '':
        return False
    _, toks = routing.parse_template('{x=' + sub_template + '}')
    cap = routing.match(toks, value)
    return cap is not None and cap != ''


# ------------------------------------------------------------ strict JSON reader

WKT_PREFIX = 'google.protobuf.'


def read_json(msg, obj, numeric_enums, where='body', seen=None, prefix=''):
    """Merge JSON object `obj` into dynamic message `msg`; keys must be json names."""
    if not isinstance(obj, dict):
        raise Mismatch('json-shape', f'{where}: expected an object for {msg.DESCRIPTOR.full_name}, got {obj!r}')
    by_json = {fd.json_name: fd for fd in msg.DESCRIPTOR.fields}
    for key, val in obj.items():
        fd = by_json.get(key)
        if fd is None:
            alt = msg.DESCRIPTOR.fields_by_name.get(key)
            raise Mismatch('json-key', f'{where}: key {key!r} is not the lowerCamel JSON name of a field of '
                           f'{msg.DESCRIPTOR.full_name}' + (f' (it is the proto name; JSON name is {alt.json_name!r})' if alt else ''))
        path = prefix + fd.name
        if seen is not None:
            if fd.type != FD.TYPE_MESSAGE or _is_map(fd) or fd.label == FD.LABEL_REPEATED or \
                    fd.message_type.full_name.startswith(WKT_PREFIX):
                if path in seen:
                    raise Mismatch('duplicate', f'field {path} arrives in {seen[path]} and in {where}', key=path)
                seen[path] = where
        _set(msg, fd, val, numeric_enums, where, seen, path)


def _is_map(fd):
    return fd.type == FD.TYPE_MESSAGE and fd.label == FD.LABEL_REPEATED and fd.message_type.GetOptions().map_entry


def _scalar(fd, val, numeric_enums, where):
    t = fd.type
    if t == FD.TYPE_ENUM:
        if numeric_enums:
            if isinstance(val, bool) or not isinstance(val, int):
                if isinstance(val, str) and val.lstrip('-').isdigit():
                    return int(val)
                raise Mismatch('enum-encoding', f'{where}: enum {fd.name} sent as {val!r}, numbers were requested', key=fd.name)
            return val
        if not isinstance(val, str) or val.lstrip('-').isdigit():
            raise Mismatch('enum-encoding', f'{where}: enum {fd.name} sent as {val!r}, names were expected', key=fd.name)
        ev = fd.enum_type.values_by_name.get(val)
        if ev is None:
            raise Mismatch('enum-name', f'{where}: {val!r} is not a value of {fd.enum_type.full_name}')
        return ev.number
    if t == FD.TYPE_BOOL:
        if isinstance(val, bool):
            return val
        if isinstance(val, str) and val in ('true', 'false'):      # the JSON literals, as a query parameter carries them
            return val == 'true'
        raise Mismatch('json-value', f'{where}: bool {fd.name} sent as {val!r}', key=fd.name)
    if t == FD.TYPE_STRING:
        if not isinstance(val, str):
            raise Mismatch('json-value', f'{where}: string {fd.name} sent as {val!r}', key=fd.name)
        return val
    if t == FD.TYPE_BYTES:
        if not isinstance(val, str):
            raise Mismatch('json-value', f'{where}: bytes {fd.name} sent as {val!r}', key=fd.name)
        s = val.replace('-', '+').replace('_', '/')
        try:
            return base64.b64decode(s + '=' * (-len(s) % 4), validate=True)
        except Exception:
            raise Mismatch('json-value', f'{where}: bytes {fd.name} is not base64: {val!r}', key=fd.name)
    if t in (FD.TYPE_DOUBLE, FD.TYPE_FLOAT):
        if isinstance(val, str):
            try:
                return float(val)
            except ValueError:
                raise Mismatch('json-value', f'{where}: float {fd.name} sent as {val!r}', key=fd.name)
        if isinstance(val, bool) or not isinstance(val, (int, float)):
            raise Mismatch('json-value', f'{where}: float {fd.name} sent as {val!r}', key=fd.name)
        return float(val)
    # integers: JSON number or decimal string
    if isinstance(val, bool):
        raise Mismatch('json-value', f'{where}: integer {fd.name} sent as {val!r}', key=fd.name)
    if isinstance(val, str):
        try:
            return int(val)
        except ValueError:
            raise Mismatch('json-value', f'{where}: integer {fd.name} sent as {val!r}', key=fd.name)
    if isinstance(val, float):
        if val != math.floor(val):
            raise Mismatch('json-value', f'{where}: integer {fd.name} sent as {val!r}', key=fd.name)
        return int(val)
    return val


def _set(msg, fd, val, numeric_enums, where, seen, path):
    if _is_map(fd):
        if not isinstance(val, dict):
            raise Mismatch('json-shape', f'{where}: map {fd.name} sent as {val!r}', key=fd.name)
        kfd = fd.message_type.fields_by_name['key']
        vfd = fd.message_type.fields_by_name['value']
        for k, v in val.items():
            kk = _scalar(kfd, k, numeric_enums, where) if kfd.type != FD.TYPE_STRING else k
            if vfd.type == FD.TYPE_MESSAGE:
                _merge_message(getattr(msg, fd.name)[kk], v, numeric_enums, where, None, '')
            else:
                getattr(msg, fd.name)[kk] = _scalar(vfd, v, numeric_enums, where)
        return
    if fd.label == FD.LABEL_REPEATED:
        if not isinstance(val, list):
            raise Mismatch('json-shape', f'{where}: repeated {fd.name} sent as {val!r}', key=fd.name)
        for v in val:
            if fd.type == FD.TYPE_MESSAGE:
                _merge_message(getattr(msg, fd.name).add(), v, numeric_enums, where, None, '')
            else:
                getattr(msg, fd.name).append(_scalar(fd, v, numeric_enums, where))
        return
    if fd.type == FD.TYPE_MESSAGE:
        sub = getattr(msg, fd.name)
        sub.SetInParent()
        _merge_message(sub, val, numeric_enums, where, seen, path + '.')
        return
    setattr(msg, fd.name, _scalar(fd, val, numeric_enums, where))


def _merge_message(sub, val, numeric_enums, where, seen, prefix):
    if sub.DESCRIPTOR.full_name.startswith(WKT_PREFIX):
        try:
            json_format.ParseDict(val, sub)
        except Exception as e:
            raise Mismatch('json-value', f'{where}: {sub.DESCRIPTOR.full_name} sent as {val!r}: {e}')
        return
    read_json(sub, val, numeric_enums, where, seen, prefix)


# ----------------------------------------------------------------- query string

def query_to_tree(pairs):
    """[(dotted.key, value)] -> nested dict; repeated keys become lists."""
    tree = {}
    for k, v in pairs:
        parts = k.split('.')
        d = tree
        for p_ in parts[:-1]:
            nxt = d.setdefault(p_, {})
            if not isinstance(nxt, dict):
                raise Mismatch('query-shape', f'query key {k!r} conflicts with a scalar parameter')
            d = nxt
        last = parts[-1]
        if last in d:
            if isinstance(d[last], list):
                d[last].append(v)
            elif isinstance(d[last], dict):
                raise Mismatch('query-shape', f'query key {k!r} conflicts with a nested parameter')
            else:
                d[last] = [d[last], v]
        else:
            d[last] = v
    return tree


def fit_query_tree(desc, tree):
    """Shape a query tree for read_json: wrap singletons of repeated fields in lists."""
    out = {}
    by_json = {fd.json_name: fd for fd in desc.fields}
    for k, v in tree.items():
        fd = by_json.get(k)
        if fd is None:
            out[k] = v
            continue
        if _is_map(fd):
            out[k] = v
        elif fd.label == FD.LABEL_REPEATED:
            out[k] = v if isinstance(v, list) else [v]
        elif fd.type == FD.TYPE_MESSAGE and isinstance(v, dict) and not fd.message_type.full_name.startswith(WKT_PREFIX):
            out[k] = fit_query_tree(fd.message_type, v)
        else:
            out[k] = v
    return out


# ------------------------------------------------------------------ the inverse

def set_by_path(msg, dotted, text, seen, where):
    parts = dotted.split('.')
    cur = msg
    for p_ in parts[:-1]:
        cur = getattr(cur, p_)
        cur.SetInParent()
    fd = cur.DESCRIPTOR.fields_by_name[parts[-1]]
    if dotted in seen:
        raise Mismatch('duplicate', f'field {dotted} arrives in {seen[dotted]} and in {where}', key=dotted)
    seen[dotted] = where
    if fd.type == FD.TYPE_STRING:
        setattr(cur, fd.name, text)
    elif fd.type == FD.TYPE_BOOL:
        if text.lower() not in ('true', 'false'):
            raise Mismatch('path-value', f'bool path variable {dotted} sent as {text!r}')
        setattr(cur, fd.name, text.lower() == 'true')
    elif fd.type in (FD.TYPE_DOUBLE, FD.TYPE_FLOAT):
        setattr(cur, fd.name, float(text))
    elif fd.type == FD.TYPE_ENUM:
        ev = fd.enum_type.values_by_name.get(text)
        setattr(cur, fd.name, ev.number if ev else int(text))
    elif fd.type == FD.TYPE_BYTES:
        raise Mismatch('path-value', f'bytes path variable {dotted}')
    else:
        try:
            setattr(cur, fd.name, int(text))
        except ValueError:
            raise Mismatch('path-value', f'integer path variable {dotted} sent as {text!r}')


def reconstruct(req_cls, bindings, verb, url, body, numeric_enums):
    """-> (request message, binding index, raw query keys). Raises Mismatch."""
    u = urllib.parse.urlsplit(url)
    errors = []
    matched_any = False
    for bi, (bverb, uri, bbody) in enumerate(bindings):
        if bverb.upper() != verb.upper():
            continue
        rx, names_ = path_regex(uri)
        m = rx.match(u.path)
        if not m:
            continue
        matched_any = True
        try:
            msg = req_cls()
            seen = {}
            for i, var in enumerate(names_):
                set_by_path(msg, var, urllib.parse.unquote(m.group(f'v{i}')), seen, 'path')
            # body
            text = body.decode('utf8') if isinstance(body, bytes) else (body or '')
            if bbody:
                try:
                    obj = json.loads(text) if text else None
                except ValueError as e:
                    raise Mismatch('body-json', f'body is not JSON: {e}')
                if obj is None:
                    raise Mismatch('body-missing', f'binding declares body {bbody!r} but no body was sent')
                if bbody == '*':
                    read_json(msg, obj, numeric_enums, 'body', seen)
                else:
                    fd = msg.DESCRIPTOR.fields_by_name[bbody]
                    if bbody in seen:
                        raise Mismatch('duplicate', f'field {bbody} arrives in path and body')
                    sub = getattr(msg, bbody)
                    sub.SetInParent()
                    sub_seen = {}
                    read_json(sub, obj, numeric_enums, 'body', sub_seen)
                    for k, v in sub_seen.items():
                        if f'{bbody}.{k}' in seen:
                            raise Mismatch('duplicate', f'field {bbody}.{k} arrives in path and body')
                        seen[f'{bbody}.{k}'] = v
                    seen[bbody] = 'body'
            elif text not in ('', 'null'):
                raise Mismatch('body-unexpected', f'binding declares no body but {text[:80]!r} was sent')
            # query
            pairs = urllib.parse.parse_qsl(u.query, keep_blank_values=True, strict_parsing=bool(u.query))
            sys_pairs = [(k, v) for k, v in pairs if k.startswith('$')]
            pairs = [(k, v) for k, v in pairs if not k.startswith('$')]
            if numeric_enums and ('$alt', 'json;enum-encoding=int') not in sys_pairs:
                raise Mismatch('alt-missing', f'numeric enums requested but $alt=json;enum-encoding=int is not in the query ({sys_pairs})')
            if not numeric_enums and any(k == '$alt' and 'enum-encoding=int' in v for k, v in sys_pairs):
                raise Mismatch('alt-unexpected', 'enum-encoding=int sent although numeric enums were not requested')
            if bbody == '*' and pairs:
                raise Mismatch('query-with-star-body', f'body "*" leaves nothing for the query, but {pairs[:4]} were sent')
            tree = fit_query_tree(msg.DESCRIPTOR, query_to_tree(pairs))
            read_json(msg, tree, numeric_enums, 'query', seen)
            return msg, bi, [k for k, _ in pairs]
        except Mismatch as e:
            errors.append(e)
    if not matched_any:
        raise Mismatch('no-binding', f'{verb} {u.path} instantiates none of the declared bindings {[(v, p) for v, p, _ in bindings]}')
    raise errors[0]


def expect_bound(req_msg, bindings):
    """Does the reference say some declared binding can carry this request?"""
    for bverb, uri, bbody in bindings:
        ok = True
        for var, sub in variables(uri):
            cur = req_msg
            parts = var.split('.')
            for p_ in parts[:-1]:
                cur = getattr(cur, p_)
            v = getattr(cur, parts[-1])
            if isinstance(v, (bool, int, float)):
                # proto3 fields without presence: a default value is indistinguishable from "unset"
                if not v:
                    ok = False
                    break
                continue
            if not isinstance(v, str) or not value_matches(sub, v):
                ok = False
                break
        if ok:
            return True
    return False
