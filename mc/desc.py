"""Descriptor DSL: build CodeGeneratorRequests directly from descriptor_pb2.

There is no protoc in the sandbox, so inputs are written as
FileDescriptorProtos; the dependency files (google/api/*, google/longrunning,
google/protobuf/*, ...) are recovered from the installed *_pb2 modules with
FileDescriptor.CopyToProto, in dependency order, exactly as protoc would hand
them to a plugin.  Every request must pass `gate()` (a fresh DescriptorPool
accepts every file in order) before it is given to the generator: that is how
"forall descriptor sets protoc would accept" is kept honest.
"""
import hashlib
import importlib

from google.protobuf import descriptor_pb2 as d
from google.protobuf import descriptor_pool
from google.protobuf.compiler import plugin_pb2
from google.api import (annotations_pb2, client_pb2, field_behavior_pb2,
                        resource_pb2, routing_pb2, field_info_pb2)
from google.longrunning import operations_pb2
from google.cloud import extended_operations_pb2 as ex_ops_pb2

T = d.FieldDescriptorProto
SCALARS = dict(
    double=T.TYPE_DOUBLE, float=T.TYPE_FLOAT, int64=T.TYPE_INT64,
    uint64=T.TYPE_UINT64, int32=T.TYPE_INT32, fixed64=T.TYPE_FIXED64,
    fixed32=T.TYPE_FIXED32, bool=T.TYPE_BOOL, string=T.TYPE_STRING,
    bytes=T.TYPE_BYTES, uint32=T.TYPE_UINT32, sfixed32=T.TYPE_SFIXED32,
    sfixed64=T.TYPE_SFIXED64, sint32=T.TYPE_SINT32, sint64=T.TYPE_SINT64)
SCALAR_NAMES = list(SCALARS)
MAP_KEY_TYPES = ['int32', 'int64', 'uint32', 'uint64', 'sint32', 'sint64',
                 'fixed32', 'fixed64', 'sfixed32', 'sfixed64', 'bool', 'string']

EMPTY = '.google.protobuf.Empty'
OPERATION = '.google.longrunning.Operation'


def camel(s):
    """protoc's ToJsonName: drop underscores, capitalise the next letter."""
    out, up = [], False
    for ch in s:
        if ch == '_':
            up = True
        elif up:
            out.append(ch.upper())
            up = False
        else:
            out.append(ch)
    return ''.join(out)


def field(name, number, typ, *, repeated=False, optional=False, oneof=None,
          required=False, behaviors=(), ref=None, child_ref=None, uuid4=False,
          json_name=None, operation_field=None, operation_request_field=None,
          operation_response_field=None):
    """typ: a scalar name, 'enum:<.full.Name>' or '<.full.MessageName>'."""
    f = T(name=name, number=number)
    if typ in SCALARS:
        f.type = SCALARS[typ]
    elif typ.startswith('enum:'):
        f.type = T.TYPE_ENUM
        f.type_name = typ[5:]
    else:
        f.type = T.TYPE_MESSAGE
        f.type_name = typ
    f.label = T.LABEL_REPEATED if repeated else T.LABEL_OPTIONAL
    if optional:
        f.proto3_optional = True
    if oneof is not None:
        f.oneof_index = oneof
    if required:
        f.options.Extensions[field_behavior_pb2.field_behavior].append(
            field_behavior_pb2.REQUIRED)
    for b in behaviors:
        f.options.Extensions[field_behavior_pb2.field_behavior].append(b)
    if ref:
        f.options.Extensions[resource_pb2.resource_reference].type = ref
    if child_ref:
        f.options.Extensions[resource_pb2.resource_reference].child_type = child_ref
    if uuid4:
        f.options.Extensions[field_info_pb2.field_info].format = \
            field_info_pb2.FieldInfo.UUID4
    if operation_field is not None:
        f.options.Extensions[ex_ops_pb2.operation_field] = operation_field
    if operation_request_field is not None:
        f.options.Extensions[ex_ops_pb2.operation_request_field] = operation_request_field
    if operation_response_field is not None:
        f.options.Extensions[ex_ops_pb2.operation_response_field] = operation_response_field
    f.json_name = json_name or camel(name)
    return f


def map_entry_name(field_name):
    """protoc's name for the synthetic entry type of map field `field_name`."""
    return ''.join(p.capitalize() if p else '' for p in field_name.split('_')) + 'Entry'


def map_field(owner_full, name, number, key_type, value_type):
    """Return (field, entry_message) for `map<key_type, value_type> name = number`
    declared inside message `owner_full` ('.pkg.Msg')."""
    ename = map_entry_name(name)
    entry = message(ename, [field('key', 1, key_type), field('value', 2, value_type)],
                    map_entry=True)
    f = field(name, number, f'{owner_full}.{ename}', repeated=True)
    return f, entry


def message(name, fields=(), *, nested=(), enums=(), oneofs=(), resource=None,
            map_entry=False):
    m = d.DescriptorProto(name=name)
    for o in oneofs:
        m.oneof_decl.add(name=o)
    for f in fields:
        f = _copy(f)
        if f.proto3_optional:
            # synthetic oneofs come after all real ones, as protoc emits them
            f.oneof_index = len(m.oneof_decl)
            m.oneof_decl.add(name='_' + f.name)
        m.field.append(f)
    m.nested_type.extend(nested)
    m.enum_type.extend(enums)
    if resource:
        r = m.options.Extensions[resource_pb2.resource]
        r.type = resource[0]
        r.pattern.extend(resource[1:])
    if map_entry:
        m.options.map_entry = True
    return m


def _copy(p):
    q = type(p)()
    q.CopyFrom(p)
    return q


def enum(name, *values, allow_alias=False):
    """values: names (numbered 0..) or (name, number) pairs."""
    e = d.EnumDescriptorProto(name=name)
    for i, v in enumerate(values):
        if isinstance(v, tuple):
            e.value.add(name=v[0], number=v[1])
        else:
            e.value.add(name=v, number=i)
    if allow_alias:
        e.options.allow_alias = True
    return e


def fill_rule(rule, http):
    """http = (verb, uri[, body[, [additional...]]])"""
    verb, uri, *rest = http
    if verb == 'custom':
        rule.custom.kind, rule.custom.path = uri
    else:
        setattr(rule, verb, uri)
    body = rest[0] if rest else None
    if body:
        rule.body = body
    for extra in (rest[1] if len(rest) > 1 else ()):
        fill_rule(rule.additional_bindings.add(), extra)


def method(name, inp, out, *, cs=False, ss=False, http=None, sigs=(), lro=None,
           routing=None, deprecated=False, operation_service=None,
           operation_polling=False):
    m = d.MethodDescriptorProto(name=name, input_type=inp, output_type=out,
                                client_streaming=cs, server_streaming=ss)
    if http:
        fill_rule(m.options.Extensions[annotations_pb2.http], http)
    for s in sigs:
        m.options.Extensions[client_pb2.method_signature].append(s)
    if lro:
        oi = m.options.Extensions[operations_pb2.operation_info]
        oi.response_type, oi.metadata_type = lro
    if routing is not None:
        rr = m.options.Extensions[routing_pb2.routing]
        rr.SetInParent()        # an empty annotation is legal (AIP-4222: "no routing headers should be generated")
        for fld, tmpl in routing:
            rr.routing_parameters.add(field=fld, path_template=tmpl)
    if deprecated:
        m.options.deprecated = True
    if operation_service:
        m.options.Extensions[ex_ops_pb2.operation_service] = operation_service
    if operation_polling:
        m.options.Extensions[ex_ops_pb2.operation_polling_method] = True
    return m


DEFAULT_SCOPES = 'https://www.googleapis.com/auth/cloud-platform'


def service(name, methods, host='acme.googleapis.com', scopes=DEFAULT_SCOPES,
            api_version=None, deprecated=False):
    s = d.ServiceDescriptorProto(name=name)
    s.method.extend(methods)
    if host:
        s.options.Extensions[client_pb2.default_host] = host
    if scopes:
        s.options.Extensions[client_pb2.oauth_scopes] = scopes
    if api_version:
        s.options.Extensions[client_pb2.api_version] = api_version
    if deprecated:
        s.options.deprecated = True
    return s


def file(name, package, *, messages=(), enums=(), services=(), deps=None,
         resource_defs=(), comments=None):
    f = d.FileDescriptorProto(name=name, package=package, syntax='proto3')
    f.message_type.extend(messages)
    f.enum_type.extend(enums)
    f.service.extend(services)
    if deps is not None:
        f.dependency.extend(deps)
    for t, *pats in resource_defs:
        r = f.options.Extensions[resource_pb2.resource_definition].add()
        r.type = t
        r.pattern.extend(pats)
    if comments:
        add_comments(f, comments)
    return f


# --------------------------------------------------------------------------
# comments (SourceCodeInfo)

def element_paths(fdp):
    """Yield (kind, full_name, path) for every commentable element of a file."""
    pkg = fdp.package

    def msgs(prefix, path, seq):
        for i, m in enumerate(seq):
            full = f'{prefix}.{m.name}'
            p = path + [i]
            if m.options.map_entry:
                continue
            yield 'message', full, p
            for j, f in enumerate(m.field):
                yield 'field', f'{full}.{f.name}', p + [2, j]
            for j, e in enumerate(m.enum_type):
                yield 'enum', f'{full}.{e.name}', p + [4, j]
                for k, v in enumerate(e.value):
                    yield 'enum_value', f'{full}.{e.name}.{v.name}', p + [4, j, 2, k]
            yield from msgs(full, p + [3], m.nested_type)

    yield from msgs(pkg, [4], fdp.message_type)
    for i, e in enumerate(fdp.enum_type):
        yield 'enum', f'{pkg}.{e.name}', [5, i]
        for k, v in enumerate(e.value):
            yield 'enum_value', f'{pkg}.{e.name}.{v.name}', [5, i, 2, k]
    for i, s in enumerate(fdp.service):
        yield 'service', f'{pkg}.{s.name}', [6, i]
        for j, m in enumerate(s.method):
            yield 'method', f'{pkg}.{s.name}.{m.name}', [6, i, 2, j]


def add_comments(fdp, chooser):
    """chooser: dict full_name -> text, or callable(kind, full_name) -> text|None."""
    fn = chooser.get if isinstance(chooser, dict) else None
    for kind, full, path in element_paths(fdp):
        text = fn(full) if fn else chooser(kind, full)
        if text is None:
            continue
        loc = fdp.source_code_info.location.add()
        loc.path.extend(path)
        loc.span.extend([0, 0, 0])
        place = 'leading'
        if isinstance(text, tuple):       # (text, 'leading' | 'trailing' | 'detached' | 'detached2')
            text, place = text
        if place == 'leading':
            loc.leading_comments = text
        elif place == 'trailing':
            loc.trailing_comments = text
        elif place == 'detached':
            loc.leading_detached_comments.append(text)
        else:
            ws = text.split(' ')
            half = max(1, len(ws) // 2)
            loc.leading_detached_comments.extend([' '.join(ws[:half]), ' '.join(ws[half:])])
    return fdp


# --------------------------------------------------------------------------
# dependency files and requests

STD = ['google.api.annotations_pb2', 'google.api.client_pb2',
       'google.api.field_behavior_pb2', 'google.api.resource_pb2',
       'google.api.routing_pb2', 'google.api.field_info_pb2',
       'google.longrunning.operations_pb2', 'google.protobuf.empty_pb2',
       'google.protobuf.field_mask_pb2', 'google.protobuf.timestamp_pb2',
       'google.protobuf.duration_pb2', 'google.protobuf.wrappers_pb2',
       'google.protobuf.struct_pb2', 'google.protobuf.any_pb2',
       'google.cloud.extended_operations_pb2']

_dep_cache = {}


def dep_files(*modnames):
    """FileDescriptorProtos (dependency order) of installed pb2 modules + deps."""
    out, seen = [], set()

    def visit(fd):
        if fd.name in seen:
            return
        seen.add(fd.name)
        for dep in fd.dependencies:
            visit(dep)
        if fd.name not in _dep_cache:
            p = d.FileDescriptorProto()
            fd.CopyToProto(p)
            _dep_cache[fd.name] = p
        out.append(_dep_cache[fd.name])

    for m in modnames:
        visit(importlib.import_module(m).DESCRIPTOR)
    return out


def std_dep_names(extra_modules=()):
    return [importlib.import_module(m).DESCRIPTOR.name for m in list(STD) + list(extra_modules)]


def request(files, parameter='', extra_dep_modules=(), extra_dep_files=(),
            generate=None):
    """Assemble a CodeGeneratorRequest.

    files: target FileDescriptorProtos, in the order protoc would list them
      (a file after the files it imports).  A file with no `dependency` gets
      the standard imports.
    extra_dep_files: dependency-only FileDescriptorProtos (not generated).
    generate: names of files to generate (default: all of `files`).
    """
    req = plugin_pb2.CodeGeneratorRequest(parameter=parameter)
    req.proto_file.extend(dep_files(*STD, *extra_dep_modules))
    std = std_dep_names(extra_dep_modules)
    for f in list(extra_dep_files) + list(files):
        if not f.dependency:
            f.dependency.extend(std)
        req.proto_file.append(f)
    for f in files:
        if generate is None or f.name in generate:
            req.file_to_generate.append(f.name)
    req.compiler_version.major = 3
    req.compiler_version.minor = 21
    return req


class GateError(Exception):
    pass


def gate(req):
    """Validity gate: a fresh pool must accept every file in order.
    Returns the pool (also the wire oracle's source of dynamic classes)."""
    pool = descriptor_pool.DescriptorPool()
    try:
        for f in req.proto_file:
            pool.Add(f)
        for f in req.proto_file:      # force resolution (upb builds lazily)
            pool.FindFileByName(f.name)
    except Exception as e:  # TypeError from upb
        raise GateError(f'{type(e).__name__}: {e}') from e
    missing = [n for n in req.file_to_generate
               if n not in {f.name for f in req.proto_file}]
    if missing:
        raise GateError(f'file_to_generate not in proto_file: {missing}')
    return pool


def canon(req_bytes, opt_files=None, env=None):
    """Canonical state key: exact inputs (order is observable, nothing sorted away)."""
    h = hashlib.sha256()
    h.update(req_bytes)
    for k in sorted(opt_files or {}):
        h.update(k.encode())
        h.update(b'\0')
        v = opt_files[k]
        h.update(v if isinstance(v, bytes) else v.encode())
        h.update(b'\0')
    if env is not None:
        h.update(repr(env).encode())
    return h.hexdigest()
