"""Running the real generator on the working tree VERIF_REPO (default /repo).

Two paths (DESIGN.md 3.3):
  * generate_cli   -- `python -m gapic.cli.generate` in a fresh process: what protoc does.
  * generate_inproc -- Options.build / API.build / Generator.get_response called
    exactly as gapic/cli/generate.py calls them, in a long-lived worker that keeps
    one Generator (compiled Jinja environment) per template directory.

Option files (service yaml, retry config) are referenced from the request
parameter as `@name@` and written content-addressed under <root>/opt so the
parameter string is identical for identical inputs.
"""
import hashlib
import os
import subprocess
import sys
import traceback
import warnings

HERE = os.path.dirname(os.path.abspath(__file__))
VERIF = os.path.dirname(HERE)
REPO = os.environ.get('VERIF_REPO', '/repo')
PY = os.environ.get('VERIF_PY', '/venv/bin/python')
TOOLS_BIN = os.path.join(VERIF, 'tools', 'bin')


def child_env(extra=None, hashseed='0'):
    env = dict(os.environ)
    env['PATH'] = TOOLS_BIN + os.pathsep + env.get('PATH', '')
    env['PYTHONHASHSEED'] = str(hashseed)
    env['PYTHONDONTWRITEBYTECODE'] = '1'
    env['GAPIC_GENERATOR_PYTHON_VERIF'] = '1'
    env.pop('PYTHONPATH', None)
    if extra:
        env.update(extra)
    return env


def place_opt_files(parameter, opt_files, root):
    """Write option files and substitute @name@ in the parameter string."""
    if not opt_files:
        return parameter
    d = os.path.join(root, 'opt')
    os.makedirs(d, exist_ok=True)
    for name, content in opt_files.items():
        data = content if isinstance(content, bytes) else content.encode()
        p = os.path.join(d, hashlib.sha256(data).hexdigest()[:16] + '-' + name)
        if not os.path.exists(p):
            tmp = p + f'.{os.getpid()}.tmp'
            with open(tmp, 'wb') as f:
                f.write(data)
            os.replace(tmp, p)
        parameter = parameter.replace(f'@{name}@', p)
    return parameter


def bind_request(req_bytes, opt_files, root):
    """Return request bytes whose parameter refers to the placed option files."""
    if not opt_files:
        return req_bytes
    from google.protobuf.compiler import plugin_pb2
    req = plugin_pb2.CodeGeneratorRequest.FromString(req_bytes)
    req.parameter = place_opt_files(req.parameter, opt_files, root)
    return req.SerializeToString()


# ---------------------------------------------------------------- in-process

_generators = {}
_setup_done = False


def _setup():
    global _setup_done
    if _setup_done:
        return
    if sys.path[0] != REPO:
        sys.path.insert(0, REPO)
    os.environ['PATH'] = TOOLS_BIN + os.pathsep + os.environ.get('PATH', '')
    warnings.simplefilter('ignore')
    _setup_done = True


def generate_inproc(req_bytes):
    """-> dict(ok=True, response=bytes) | dict(ok=False, etype, emsg, tb)"""
    _setup()
    try:
        import io
        from gapic import generator
        from gapic.cli import generate as cli
        assert os.path.realpath(generator.__file__).startswith(os.path.realpath(REPO)), \
            f'gapic imported from {generator.__file__}, not {REPO}'
        # The real entry point (gapic/cli/generate.py: option parsing, target-package computation, API.build, rendering)
        # runs in this process; only the construction of Generator objects -- a jinja environment whose compiled templates
        # are worth keeping -- is memoised per (template path, sample configs).
        if not getattr(generator.Generator, '_verif_memo', False):
            real = generator.Generator

            def memo(opts, _real=real):
                key = (tuple(opts.templates), tuple(opts.sample_configs))
                g = _generators.get(key)
                if g is None:
                    g = _generators[key] = _real(opts)
                return g
            memo._verif_memo = True
            memo.__wrapped__ = real
            generator.Generator = memo
            cli.generator.Generator = memo
        out = io.BytesIO()
        cli.generate.callback(request=io.BytesIO(req_bytes), output=out)
        return dict(ok=True, response=out.getvalue())
    except BaseException as e:  # RecursionError, SystemExit from click, ...
        if isinstance(e, KeyboardInterrupt):
            raise
        tb = traceback.extract_tb(e.__traceback__)
        where = ''
        for fr in reversed(tb):
            if '/gapic/' in fr.filename:
                where = f'{os.path.relpath(fr.filename, REPO)}:{fr.name}'
                break
        return dict(ok=False, etype=type(e).__name__, emsg=str(e)[:2000], where=where,
                    tb=''.join(traceback.format_exception(type(e), e, e.__traceback__)[-6:])[-3000:])


# ---------------------------------------------------------------------- CLI

def generate_cli(req_bytes, workdir, hashseed='0', cwd=None, extra_env=None, timeout=600):
    """Fresh-process generation. -> dict(ok, response | (rc, stderr))"""
    os.makedirs(workdir, exist_ok=True)
    tag = hashlib.sha256(req_bytes + str((hashseed, cwd, sorted((extra_env or {}).items()))).encode()).hexdigest()[:16]
    rp = os.path.join(workdir, f'req-{tag}.bin')
    op = os.path.join(workdir, f'res-{tag}-{os.getpid()}.bin')
    with open(rp, 'wb') as f:
        f.write(req_bytes)
    env = child_env(dict(extra_env or {}, PYTHONPATH=REPO), hashseed=hashseed)
    p = subprocess.run([PY, '-W', 'ignore', '-m', 'gapic.cli.generate', '--request', rp, '--output', op],
                       cwd=cwd or workdir, env=env, capture_output=True, timeout=timeout)
    try:
        if p.returncode != 0:
            err = p.stderr.decode('utf8', 'replace')
            last = [l for l in err.strip().splitlines() if l.strip()][-1:] or ['']
            return dict(ok=False, rc=p.returncode, stderr=err[-3000:],
                        etype=last[0].split(':')[0].strip().split('.')[-1], emsg=last[0][:2000])
        with open(op, 'rb') as f:
            return dict(ok=True, response=f.read(), stderr=p.stderr.decode('utf8', 'replace')[-2000:])
    finally:
        for q in (rp, op):
            try:
                os.unlink(q)
            except OSError:
                pass
