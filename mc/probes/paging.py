"""C07 probe: classification cells and exhaustive page histories."""
import asyncio
import itertools
import json
import urllib.parse

from google.protobuf import json_format

from mc import probelib, seams


def main(p):
    a = p.args
    if a['mode'] == 'history':
        seams.VirtualClock().install()   # api-core shrinks `timeout` by elapsed (real) time otherwise
    try:
        lib = probelib.Lib(a['package'])
    except BaseException as e:
        return dict(import_error=probelib.exc_info(e))
    return classify(p, lib) if a['mode'] == 'classify' else history(p, lib)


# ------------------------------------------------------------ classification

def classify(p, lib):
    a = p.args
    client, ch = lib.sync('Pg')
    out = {}
    for c in a['cells']:
        Dresp = p.cls(c['resp'])
        DItem = p.cls(c['item'])
        page = Dresp()
        exp = {}
        for fname, kind in c['layout']:
            if kind == 'msg':
                for i in range(2):
                    getattr(page, fname).add(name=f'{fname}-m{i}')
                exp[fname] = [f'{fname}-m0', f'{fname}-m1']
            elif kind == 'scalar':
                getattr(page, fname).extend([f'{fname}-s0', f'{fname}-s1', f'{fname}-s2'])
                exp[fname] = [f'{fname}-s0', f'{fname}-s1', f'{fname}-s2']
            elif kind == 'map':
                getattr(page, fname)['k0'].name = 'v0'
                exp[fname] = [['k0', 'v0']]
            elif kind == 'map-enum':
                getattr(page, fname)['k0'] = 2
                exp[fname] = [['k0', 2]]
            elif kind == 'enum':
                getattr(page, fname).extend([1, 2, 1])
                exp[fname] = [1, 2, 1]
            else:
                getattr(page, fname).name = 'single'
        ch.log.clear()
        ch.script = [page.SerializeToString()]
        o = dict(paged=False)
        try:
            ret = getattr(client, c['py'])(request={'parent': 'p'})
            o['paged'] = hasattr(ret, 'pages') and type(ret).__name__.endswith('Pager')
            o['type'] = type(ret).__name__
            if o['paged'] and c['first_rep']:
                fname, kind = c['first_rep']
                got = ([[k, v.name] for k, v in ret] if kind == 'map' else [[k, int(v)] for k, v in ret] if kind == 'map-enum' else
                       [(x.name if kind == 'msg' else int(x) if kind == 'enum' else x) for x in ret])
                o['got_items'], o['exp_items'] = got, exp[fname]
                o['items_ok'] = got == exp[fname]
            else:
                o['items_ok'] = True
        except BaseException as e:
            o['error'] = probelib.exc_info(e)
        out[c['id']] = o
    return dict(cells=out)


# ------------------------------------------------------------------ histories

META = ('x-verif-k', 'v1')
TIMEOUT = 12.5


def initial_request(seed):
    return dict(parent=f'shelves/s{seed}', page_size=7, filter='a=b', order=['x', 'y'])


def make_pages(p, a, sizes):
    """Script for one history: page j holds sizes[j] uniquely numbered items."""
    Dresp = p.cls(f'.{a["proto_package"]}.{a["rpc"]}Response')
    pages, all_items, k = [], [], 0
    for j, n in enumerate(sizes):
        pg = Dresp()
        items = []
        for _ in range(n):
            if a['kind'] == 'msg':
                getattr(pg, a['field']).add(name=f'i{k}', n=k)
                items.append(f'i{k}')
            elif a['kind'] == 'scalar':
                getattr(pg, a['field']).append(f'i{k}')
                items.append(f'i{k}')
            else:
                getattr(pg, a['field'])[f'k{k}'].name = f'i{k}'
                items.append([f'k{k}', f'i{k}'])
            k += 1
        pg.total = 100 + j
        if j < len(sizes) - 1:
            pg.next_page_token = 'cursor-9' if a.get('tokens') == 'constant' else f'tok{j + 1}'
        pages.append((pg, items))
        all_items += items
    return pages, all_items


def item_view(kind, x):
    if kind == 'msg':
        return x.name
    if kind == 'scalar':
        return x
    return [x[0], x[1].name]


def page_items(kind, field, page):
    v = getattr(page, field)
    if kind == 'map':
        return sorted([k, x.name] for k, x in v.items())
    return [item_view(kind, x) for x in v]


def history(p, lib):
    a = p.args
    out = dict(histories=0, transitions=0, fetches=0, failures=[], nontrivial=[], outcomes={}, samples=[])
    Dreq = p.cls(f'.{a["proto_package"]}.{a["rpc"]}Request')
    init = initial_request(a.get('seed', 0))
    exp_init = Dreq(**init)

    def fail(hist, mode, page, kind, detail):
        if len(out['failures']) < 200:
            out['failures'].append(dict(history=list(hist), mode=mode, page=page, kind=kind, detail=str(detail)[:400]))
        out['outcomes'][kind] = out['outcomes'].get(kind, 0) + 1

    def all_histories():
        if a.get('only_history') is not None:
            yield tuple(a['only_history'])
            return
        for d in range(1, a['depth'] + 1):
            yield from itertools.product(range(a['max_items'] + 1), repeat=d)

    # --- request decoding per transport
    def grpc_requests(log):
        return [(Dreq.FromString(e['raw']), e['timeout'], [m for m in (e['metadata'] or []) if m[0] == META[0]]) for e in log]

    def rest_requests(log):
        reqs = []
        for e in log:
            u = urllib.parse.urlsplit(e['url'])
            qs = urllib.parse.parse_qs(u.query, keep_blank_values=True)
            body = json.loads(e['body']) if e['body'] else {}
            r = Dreq()
            r.parent = u.path[len('/v1/'):].rsplit('/', 1)[0]
            src = dict(body)
            for k, v in qs.items():
                if k.startswith('$'):
                    continue
                src[k] = v if k == 'order' else v[0]
            src.pop('parent', None)
            try:
                json_format.ParseDict(src, r)
            except Exception as ex:
                return None, f'cannot rebuild request from {e["url"]} {e["body"]}: {ex}'
            reqs.append((r, e['timeout'], [(META[0], e['headers'][META[0]])] if META[0] in e['headers'] else []))
        return reqs, None

    def check_requests(hist, mode, reqs, pages):
        if len(reqs) != len(pages):
            fail(hist, mode, len(reqs), 'fetch-count', f'{len(reqs)} fetches for {len(pages)} pages')
            return
        for i, (r, timeout, md) in enumerate(reqs):
            exp = Dreq()
            exp.CopyFrom(exp_init)
            if i > 0:
                exp.page_token = pages[i - 1][0].next_page_token
            if r != exp:
                fail(hist, mode, i, 'request-changed', f'fetch {i} sent {probelib.short(r)} expected {probelib.short(exp)}')
            if timeout != TIMEOUT:
                fail(hist, mode, i, 'timeout-changed', f'fetch {i} timeout {timeout} != {TIMEOUT}')
            if md != [META]:
                fail(hist, mode, i, 'metadata-changed', f'fetch {i} metadata {md}')

    kind, fld = a['kind'], a['field']

    def same_items(got, pages):
        """items in server order; entries of one map page are unordered on the wire"""
        if kind != 'map':
            return got == [x for _, items in pages for x in items]
        i = 0
        for _, items in pages:
            if sorted(got[i:i + len(items)]) != sorted(items):
                return False
            i += len(items)
        return i == len(got)

    def run_sync(hist, client, log_of, set_script, decode):
        pages, all_items = make_pages(p, a, hist)
        for mode in ('pages', 'items') + (('items-after-get',) if kind == 'map' else ()):
            set_script(pages)
            try:
                pager = getattr(client, a['py'])(request=dict(init), timeout=TIMEOUT, metadata=[META])
                if mode == 'pages':
                    got_all = []
                    for j, page in enumerate(pager.pages):
                        out['transitions'] += 1
                        if j >= len(pages):
                            fail(hist, mode, j, 'extra-page', 'pager yielded more pages than the server sent')
                            break
                        got = page_items(kind, fld, page)
                        got_all += got
                        if got != (sorted(pages[j][1]) if kind == 'map' else pages[j][1]):
                            fail(hist, mode, j, 'page-items', f'{got} != {pages[j][1]}')
                        if len(log_of()) < j + 1:
                            fail(hist, mode, j, 'fetch-missing', f'{len(log_of())} fetches after page {j}')
                        if pager.next_page_token != pages[j][0].next_page_token or pager.total != pages[j][0].total:
                            fail(hist, mode, j, 'stale-attributes',
                                 f'pager.next_page_token={pager.next_page_token!r} total={pager.total} after page {j} '
                                 f'({pages[j][0].next_page_token!r}, {pages[j][0].total})')
                    if not same_items(got_all, pages):
                        fail(hist, mode, len(pages), 'items', f'{got_all} != {all_items}')
                else:
                    if mode == 'items-after-get':
                        # looking a key up in the current page (a key of a later page, an absent key) leaves the cursor alone
                        later = [k for _, items in pages[1:] for k, _ in items][:1] + ['no-such-key']
                        for k_ in later:
                            pager.get(k_)
                        if len(log_of()) != 1:
                            fail(hist, mode, 0, 'get-fetched-pages', f'{len(log_of())} fetches after get() on a fresh pager')
                    got_all = [item_view(kind, x) for x in pager]
                    if not same_items(got_all, pages):
                        fail(hist, mode, len(pages), 'items', f'{got_all} != {all_items}')
            except BaseException as e:
                fail(hist, mode, -1, 'exception', probelib.exc_info(e))
                continue
            reqs, err = decode(log_of())
            if err:
                fail(hist, mode, -1, 'request-undecodable', err)
                continue
            out['fetches'] += len(reqs)
            check_requests(hist, mode, reqs, pages)

    Gen = lib.type_of(f'.{a["proto_package"]}.{a["rpc"]}Request', a['proto_package'])

    def reuse_pass_sync(hist, client, log_of, set_script, decode):
        """A non-initial state: the caller lists twice with the *same* request object; the second listing must again
        start at the caller's page_token and yield every item (the pager must not write into the caller's request)."""
        if len(hist) < 2:
            return
        pages, all_items = make_pages(p, a, hist)
        greq = Gen(**init)
        for rnd in (0, 1):
            mode = f'reuse{rnd}'
            set_script(pages)
            try:
                got_all = [item_view(kind, x) for x in getattr(client, a['py'])(request=greq, timeout=TIMEOUT, metadata=[META])]
            except BaseException as e:
                return fail(hist, mode, -1, 'exception', probelib.exc_info(e))
            if not same_items(got_all, pages):
                fail(hist, mode, len(pages), 'items', f'{got_all} != {all_items}')
            reqs, err = decode(log_of())
            if err:
                return fail(hist, mode, -1, 'request-undecodable', err)
            out['fetches'] += len(reqs)
            check_requests(hist, mode, reqs, pages)
        if Dreq.FromString(probelib.wire_of(greq)) != exp_init:
            fail(hist, 'reuse', -1, 'caller-request-mutated', f'the caller\'s request object now reads {probelib.short(Dreq.FromString(probelib.wire_of(greq)))}')

    def retry_pass_sync(hist, client, log_of, set_faulty_script, decode):
        """The caller's explicit retry must also govern the later fetches: one transient UNAVAILABLE is injected before
        the last page; with the retry threaded through, the pager still yields every item exactly once."""
        if len(hist) < 2:
            return
        from google.api_core import retry as retries, exceptions as core_exc
        pages, all_items = make_pages(p, a, hist)
        set_faulty_script(pages)
        r = retries.Retry(predicate=retries.if_exception_type(core_exc.ServiceUnavailable), initial=0.5, maximum=0.5, multiplier=1.0,
                          timeout=600.0)
        try:
            pager = getattr(client, a['py'])(request=dict(init), retry=r, timeout=TIMEOUT, metadata=[META])
            got_all = [item_view(kind, x) for x in pager]
        except BaseException as e:
            return fail(hist, 'items+retry', len(hist) - 1, 'explicit-retry-not-applied-to-later-page', probelib.exc_info(e))
        if not same_items(got_all, pages):
            fail(hist, 'items+retry', len(pages), 'items', f'{got_all} != {all_items}')
        if len(log_of()) != len(pages) + 1:
            fail(hist, 'items+retry', len(pages), 'fetch-count', f'{len(log_of())} fetches for {len(pages)} pages and one injected fault')
        out['fetches'] += len(log_of())

    def note(hist):
        out['histories'] += 1
        if len(hist) >= 2:
            out['nontrivial'].append('-'.join(map(str, hist)))
        out['outcomes']['ok-history'] = out['outcomes'].get('ok-history', 0) + 1
        if len(out['samples']) < 2 and len(hist) >= 3:
            out['samples'].append(dict(history=list(hist), meaning='items per page; every page but the last carries a next_page_token'))

    if a['client'] == 'sync':
        client, ch = lib.sync('Hist')

        def set_script(pages):
            ch.log.clear()
            ch.script = [pg.SerializeToString() for pg, _ in pages]
        def set_faulty(pages):
            import grpc
            ch.log.clear()
            raws = [pg.SerializeToString() for pg, _ in pages]
            ch.script = raws[:-1] + [seams.Err(grpc.StatusCode.UNAVAILABLE)] + raws[-1:]
        for hist in all_histories():
            run_sync(hist, client, lambda: ch.log, set_script, lambda log: (grpc_requests(log), None))
            reuse_pass_sync(hist, client, lambda: ch.log, set_script, lambda log: (grpc_requests(log), None))
            retry_pass_sync(hist, client, lambda: ch.log, set_faulty, None)
            note(hist)
    elif a['client'] == 'rest':
        seam = seams.HttpSeam().install()
        client = lib.rest('Hist')

        def set_script(pages):
            seam.log.clear()
            seam.script = [(200, json_format.MessageToJson(pg).encode()) for pg, _ in pages]
        def set_faulty(pages):
            seam.log.clear()
            ok = [(200, json_format.MessageToJson(pg).encode()) for pg, _ in pages]
            seam.script = ok[:-1] + [(503, b'{"error": {"code": 503, "message": "try again", "status": "UNAVAILABLE"}}')] + ok[-1:]
        for hist in all_histories():
            run_sync(hist, client, lambda: seam.log, set_script, rest_requests)
            reuse_pass_sync(hist, client, lambda: seam.log, set_script, rest_requests)
            retry_pass_sync(hist, client, lambda: seam.log, set_faulty, None)
            note(hist)
    else:
        async def amain():
            client, ch = lib.aio('Hist')
            for hist in all_histories():
                pages, all_items = make_pages(p, a, hist)
                for mode in ('pages', 'items'):
                    ch.log.clear()
                    ch.script = [pg.SerializeToString() for pg, _ in pages]
                    try:
                        pager = await getattr(client, a['py'])(request=dict(init), timeout=TIMEOUT, metadata=[META])
                        if mode == 'pages':
                            got_all, j = [], 0
                            async for page in pager.pages:
                                out['transitions'] += 1
                                if j >= len(pages):
                                    fail(hist, mode, j, 'extra-page', 'pager yielded more pages than the server sent')
                                    break
                                got = page_items(kind, fld, page)
                                got_all += got
                                if got != (sorted(pages[j][1]) if kind == 'map' else pages[j][1]):
                                    fail(hist, mode, j, 'page-items', f'{got} != {pages[j][1]}')
                                if len(ch.log) < j + 1:
                                    fail(hist, mode, j, 'fetch-missing', f'{len(ch.log)} fetches after page {j}')
                                if pager.next_page_token != pages[j][0].next_page_token or pager.total != pages[j][0].total:
                                    fail(hist, mode, j, 'stale-attributes', f'after page {j}')
                                j += 1
                            if not same_items(got_all, pages):
                                fail(hist, mode, len(pages), 'items', f'{got_all} != {all_items}')
                        else:
                            got_all = [item_view(kind, x) async for x in pager]
                            if not same_items(got_all, pages):
                                fail(hist, mode, len(pages), 'items', f'{got_all} != {all_items}')
                    except BaseException as e:
                        fail(hist, mode, -1, 'exception', probelib.exc_info(e))
                        continue
                    reqs = grpc_requests(ch.log)
                    out['fetches'] += len(reqs)
                    check_requests(hist, mode, reqs, pages)
                if len(hist) >= 2:
                    greq = Gen(**init)
                    for rnd in (0, 1):
                        mode = f'reuse{rnd}'
                        ch.log.clear()
                        ch.script = [pg.SerializeToString() for pg, _ in pages]
                        try:
                            pager = await getattr(client, a['py'])(request=greq, timeout=TIMEOUT, metadata=[META])
                            got_all = [item_view(kind, x) async for x in pager]
                        except BaseException as e:
                            fail(hist, mode, -1, 'exception', probelib.exc_info(e))
                            break
                        if not same_items(got_all, pages):
                            fail(hist, mode, len(pages), 'items', f'{got_all} != {all_items}')
                        reqs = grpc_requests(ch.log)
                        out['fetches'] += len(reqs)
                        check_requests(hist, mode, reqs, pages)
                    if Dreq.FromString(probelib.wire_of(greq)) != exp_init:
                        fail(hist, 'reuse', -1, 'caller-request-mutated', 'the caller\'s request object was written to')
                if len(hist) >= 2:
                    import grpc
                    from google.api_core import retry_async, retry as retries, exceptions as core_exc
                    ch.log.clear()
                    raws = [pg.SerializeToString() for pg, _ in pages]
                    ch.script = raws[:-1] + [seams.Err(grpc.StatusCode.UNAVAILABLE)] + raws[-1:]
                    r = retry_async.AsyncRetry(predicate=retries.if_exception_type(core_exc.ServiceUnavailable), initial=0.5, maximum=0.5,
                                               multiplier=1.0, timeout=600.0)
                    try:
                        pager = await getattr(client, a['py'])(request=dict(init), retry=r, timeout=TIMEOUT, metadata=[META])
                        got_all = [item_view(kind, x) async for x in pager]
                        if not same_items(got_all, pages):
                            fail(hist, 'items+retry', len(pages), 'items', f'{got_all} != {all_items}')
                        if len(ch.log) != len(pages) + 1:
                            fail(hist, 'items+retry', len(pages), 'fetch-count', f'{len(ch.log)} fetches')
                        out['fetches'] += len(ch.log)
                    except BaseException as e:
                        fail(hist, 'items+retry', len(hist) - 1, 'explicit-retry-not-applied-to-later-page', probelib.exc_info(e))
                note(hist)
        asyncio.run(amain())
    return out


if __name__ == '__main__':
    probelib.run(main)
