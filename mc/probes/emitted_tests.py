"""C13 probe: run the emitted tests/unit suite against the emitted library (fresh process)."""
import os
import subprocess
import sys
import xml.etree.ElementTree as ET

from mc import probelib


def main(p):
    a = p.args
    root = os.getcwd()
    junit = os.path.join(root, '_junit.xml')
    env = dict(os.environ)
    env['PYTHONPATH'] = root + os.pathsep + env.get('PYTHONPATH', '')
    cmd = [sys.executable, '-m', 'pytest', 'tests/unit', '-q', '-p', 'no:cacheprovider', '-p', 'no:randomly',
           '--junitxml', junit, '-o', 'junit_family=xunit1', '--timeout=600', '-W', 'ignore']
    if a.get('workers', 0) > 1:
        cmd += ['-n', str(a['workers'])]
    r = subprocess.run(cmd, cwd=root, env=env, capture_output=True, text=True, timeout=a.get('timeout', 2400))
    out = dict(rc=r.returncode, tail=(r.stdout[-1500:] + r.stderr[-500:]), tests=0, failures=0, errors=0, skipped=0, failed=[])
    if not os.path.exists(junit):
        out['no_junit'] = True
        return out
    tree = ET.parse(junit)
    rpc_names = set(a.get('rpcs', []))
    seen_rpcs = set()
    for tc in tree.iter('testcase'):
        out['tests'] += 1
        name = tc.get('name', '')
        for r_ in rpc_names:
            if r_ in name:
                seen_rpcs.add(r_)
        for kind in ('failure', 'error'):
            el = tc.find(kind)
            if el is not None:
                out['failures' if kind == 'failure' else 'errors'] += 1
                if len(out['failed']) < 400:
                    msg = (el.get('message') or '').strip().splitlines()
                    out['failed'].append(dict(test=f'{tc.get("classname", "")}::{name}', kind=kind,
                                              message=(msg[0] if msg else '')[:200]))
        if tc.find('skipped') is not None:
            out['skipped'] += 1
    out['rpcs_with_tests'] = sorted(seen_rpcs)
    return out


if __name__ == '__main__':
    probelib.run(main)
