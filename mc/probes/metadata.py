"""C15 probe: classes/methods of the imported package; METHOD_TO_PARAMS of the fix-up script."""
import glob
import importlib.util
import inspect
import os

from mc import probelib


def main(p):
    out = dict(classes={}, snake={})
    try:
        lib = probelib.Lib(p.args['package'])
    except BaseException as e:
        return dict(import_error=probelib.exc_info(e))
    for name in dir(lib.pkg):
        obj = getattr(lib.pkg, name)
        if inspect.isclass(obj) and name.endswith('Client'):
            out['classes'][name] = sorted(n for n in dir(obj) if callable(getattr(obj, n, None)))
    # the generator's own snake-casing of RPC names is observed through the fix-up keys only;
    # the probe offers a neutral lower-casing (underscores removed on both sides by the oracle)
    for f in p.req.proto_file:
        if f.name in p.req.file_to_generate:
            for s in f.service:
                for m in s.method:
                    out['snake'][m.name] = None
    scripts = glob.glob(os.path.join(os.getcwd(), 'scripts', 'fixup_*_keywords.py'))
    try:
        spec = importlib.util.spec_from_file_location('fixup_mod', scripts[0])
        mod = importlib.util.module_from_spec(spec)
        spec.loader.exec_module(mod)
        tr = [v for k, v in vars(mod).items() if k.endswith('CallTransformer') and hasattr(v, 'METHOD_TO_PARAMS')][0]
        out['method_to_params'] = {k: list(v) for k, v in tr.METHOD_TO_PARAMS.items()}
    except BaseException as e:
        out['fixup_error'] = repr(e)[:300]
        out['method_to_params'] = None
    return out


if __name__ == '__main__':
    probelib.run(main)
