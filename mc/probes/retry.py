"""C09 probe: fault histories under a virtual clock; reference schedule from the JSON entry."""
import asyncio
import itertools

from mc import probelib, seams

clock = seams.VirtualClock().install()      # before google.api_core.retry / the library are imported

import grpc  # noqa: E402
from google.api_core import exceptions as core_exc, retry as retries, retry_async  # noqa: E402


def expect(cell, hist, retry_codes=None, timeout='default', policy='default'):
    """Reference schedule -> (outcome, attempts, sleeps, elapsed before each attempt)."""
    codes = set(cell['codes']) if retry_codes is None else set(retry_codes)
    pol = cell['policy'] if policy == 'default' else policy
    tmo = cell['timeout'] if timeout == 'default' else timeout
    t, sleeps, starts = 0.0, [], []
    delay = None
    if pol:
        ini, mx, mult = float(pol['initialBackoff'][:-1]), float(pol['maxBackoff'][:-1]), float(pol['backoffMultiplier'])
        delay = min(ini, mx)
    for i, ans in enumerate(hist):
        starts.append(t)
        if ans == 'OK':
            return 'ok', i + 1, sleeps, starts, False
        if not pol or ans not in codes:
            return 'error:' + ans, i + 1, sleeps, starts, False
        s = delay
        if tmo is not None and t + s > tmo + 1e-9:
            return 'deadline:' + ans, i + 1, sleeps, starts, abs(t + s - tmo) < 1e-6
        sleeps.append(s)
        t += s
        delay = min(delay * mult, mx)
    raise AssertionError('history without terminal answer')


def histories(cell, all_codes, depth):
    codes = cell['codes'] if cell['policy'] else []
    others = [c for c in all_codes if c not in codes]
    terminals = ['OK'] + others[:1] + ([others[-1]] if len(others) > 1 else [])
    if not codes:
        for t in terminals + (['UNAVAILABLE'] if 'UNAVAILABLE' not in terminals else []):
            yield [t]
        return
    kmax = depth if len(codes) <= 2 else 2
    for k in range(0, kmax + 1):
        for pre in itertools.product(codes, repeat=k):
            for t in terminals:
                yield list(pre) + [t]


def main(p):
    a = p.args
    out = dict(histories=0, attempts=0, failures=[], nontrivial=[], nontrivial_total=0, outcomes={}, samples=[])
    libs = {}
    try:
        for pk in sorted({c.get('package', a['package']) for c in a['cells']}):
            libs[pk] = probelib.Lib(pk)
    except BaseException as e:
        out['import_error'] = probelib.exc_info(e)
        return out
    Resp = p.cls(f'.{a["proto_package"]}.Resp')
    reply = Resp(ok=True).SerializeToString()

    def fail(cell, client, hist, kind, detail):
        if len(out['failures']) < 300:
            out['failures'].append(dict(cell=cell['id'], client=client, history=hist, kind=kind, detail=str(detail)[:400]))
        out['outcomes'][kind] = out['outcomes'].get(kind, 0) + 1

    def script(hist, stream=False):
        return [([reply] if stream else reply) if x == 'OK' else seams.Err(getattr(grpc.StatusCode, x)) for x in hist]

    # which status codes can a REST server express?  Those whose api-core exception class is what its HTTP status maps back to.
    HTTP_OF = {}
    for cname in a['all_codes']:
        cls = core_exc.exception_class_for_grpc_status(getattr(grpc.StatusCode, cname))
        if getattr(cls, 'code', None) and type(core_exc.from_http_status(cls.code, 'x')) is cls:
            HTTP_OF[cname] = int(cls.code)

    def http_script(hist, stream=False):
        ok = (200, b'[{"ok": true}]' if stream else b'{"ok": true}')
        return [ok if x == 'OK' else (HTTP_OF[x], ('{"error": {"code": %d, "message": "scripted", "status": "%s"}}' % (HTTP_OF[x], x)).encode())
                for x in hist]

    def classify(exc):
        if exc is None:
            return 'ok'
        if isinstance(exc, core_exc.RetryError):
            return 'RetryError'
        if isinstance(exc, core_exc.GoogleAPICallError) and exc.grpc_status_code is not None:
            return 'error:' + exc.grpc_status_code.name
        return 'exception:' + type(exc).__name__

    def judge(cell, client, hist, exc, log, sleeps, t0, exp, what=''):
        outcome, n_att, exp_sleeps, starts, boundary = exp
        got = classify(exc)
        judged_named = cell['named'] or not cell['id'].startswith('unnamed/Ret2')
        if cell['id'] == 'unnamed/Ret2':
            return      # its service is named by a service-only entry: observed, not judged
        ok_outcomes = {outcome} if not outcome.startswith('deadline:') else {'RetryError', 'error:' + outcome.split(':')[1]}
        if boundary:
            return      # elapsed + sleep == deadline exactly: either reading is acceptable
        if got not in ok_outcomes:
            return fail(cell, client, hist, 'outcome' + what, f'{got}, reference {sorted(ok_outcomes)}')
        if len(log) != n_att:
            return fail(cell, client, hist, 'attempts' + what, f'{len(log)} attempts, reference {n_att}')
        if len(sleeps) != len(exp_sleeps) or any(abs(x - y) > 1e-6 * max(1, y) for x, y in zip(sleeps, exp_sleeps)):
            return fail(cell, client, hist, 'backoff' + what, f'slept {sleeps}, reference {exp_sleeps}')
        return True

    def check_timeouts(cell, client, hist, log, tmo, starts, what=''):
        for i, e in enumerate(log):
            if tmo is None:
                if e['timeout'] is not None:
                    return fail(cell, client, hist, 'timeout-unexpected' + what, f'attempt {i} carries timeout {e["timeout"]}, no default expected')
                continue
            if e['timeout'] is None:
                return fail(cell, client, hist, 'timeout-missing' + what, f'attempt {i} has no deadline, entry timeout {tmo}')
            if i == 0 and abs(e['timeout'] - tmo) > 1e-9 + 1e-6 * tmo:
                return fail(cell, client, hist, 'timeout-first' + what, f'first attempt timeout {e["timeout"]} != {tmo}')
            # api-core hands later attempts the remaining time, but falls back to the full timeout once less
            # than one second remains; either way it may never exceed the entry's timeout
            remaining = tmo - starts[i]
            limit = remaining if remaining >= 1 else tmo
            if i > 0 and (e['timeout'] > limit + 1e-6 or e['timeout'] <= 0):
                return fail(cell, client, hist, 'timeout-later' + what, f'attempt {i} timeout {e["timeout"]} exceeds {limit} (remaining {remaining}, entry {tmo})')

    def overrides(cell):
        if cell['id'].replace('doubled-option/', '') not in ('single/UNAVAILABLE', 'unnamed/Ret', 'policy/typical', 'timeout=None/policy=True', 'stream/policy+timeout', 'unnamed/stream',
                                                              'client-stream/policy+timeout', 'bidi/policy+timeout'):
            return
        custom = dict(initialBackoff='1s', maxBackoff='1s', backoffMultiplier=1)
        yield 'retry=None', dict(retry=None), ['UNAVAILABLE', 'OK'], dict(retry_codes=[], policy=None)
        yield 'timeout=7', dict(timeout=7.0), ['OK'], dict(timeout=7.0)
        yield 'custom-retry', 'CUSTOM', ['NOT_FOUND', 'NOT_FOUND', 'OK'], dict(retry_codes=['NOT_FOUND'], policy=custom, timeout=10.0)
        yield 'custom-retry-other-code', 'CUSTOM', ['UNAVAILABLE', 'OK'], dict(retry_codes=['NOT_FOUND'], policy=custom, timeout=10.0)

    # ------------------------------------------------------------ sync gRPC and REST
    seam = seams.HttpSeam(clock).install()

    def drive_blocking(kind):
        clients = {}
        for cell in a['cells']:
            if cell.get('cstream') and kind != 'sync':
                continue        # request-streaming methods: gRPC only, driven through the sync client
            lib = libs[cell.get('package', a['package'])]
            if cell['service'] not in clients:
                clients[cell['service']] = lib.sync(cell['service'], clock) if kind == 'sync' else (lib.rest(cell['service']), seam)
            client, ch = clients[cell['service']]
            meth = getattr(client, cell['py'])
            stream = cell.get('stream', False)

            def call(**kw):
                if cell.get('cstream'):
                    ret = meth(requests=iter([{'name': 'n'}]), **kw)
                else:
                    ret = meth(request={'name': 'n'}, **kw)
                if stream:
                    list(ret)

            def arm(hist):
                ch.log.clear()
                ch.script = script(hist, stream) if kind == 'sync' else http_script(hist, stream)
                clock.sleeps.clear()

            for hist in histories(cell, a['all_codes'], a['depth']):
                if kind == 'rest' and any(x != 'OK' and x not in HTTP_OF for x in hist):
                    continue
                out['histories'] += 1
                arm(hist)
                t0 = clock.t
                exc = None
                try:
                    call()
                except BaseException as e:
                    exc = e
                out['attempts'] += len(ch.log)
                exp = expect(cell, hist)
                if judge(cell, kind, hist, exc, list(ch.log), list(clock.sleeps), t0, exp) is True:
                    check_timeouts(cell, kind, hist, list(ch.log), cell['timeout'], exp[3])
                    out['outcomes']['ok-history'] = out['outcomes'].get('ok-history', 0) + 1
                if len(ch.log) >= 2:
                    out['nontrivial_total'] += 1
                    if len(out['nontrivial']) < 400:
                        out['nontrivial'].append(f'{cell["id"]}|{kind}|{"-".join(hist)}')
                if len(out['samples']) < 2 and len(hist) >= 3 and kind == 'sync':
                    out['samples'].append(dict(cell=cell['id'], history=hist, attempts=len(ch.log), sleeps=list(clock.sleeps),
                                               attempt_timeouts=[e['timeout'] for e in ch.log], outcome=classify(exc)))
            for name, kw, hist, ref in overrides(cell):
                out['histories'] += 1
                if kw == 'CUSTOM':
                    kw = dict(retry=retries.Retry(predicate=retries.if_exception_type(core_exc.NotFound), initial=1.0, maximum=1.0,
                                                  multiplier=1.0, timeout=10.0), timeout=10.0)
                arm(hist)
                exc = None
                try:
                    call(**kw)
                except BaseException as e:
                    exc = e
                exp = expect(cell, hist, **ref)
                if judge(cell, kind, hist, exc, list(ch.log), list(clock.sleeps), clock.t, exp, what=f'[{name}]') is True and 'timeout' in ref:
                    check_timeouts(cell, kind, hist, list(ch.log), ref['timeout'], exp[3], what=f'[{name}]')

    drive_blocking('sync')
    drive_blocking('rest')

    # --------------------------------------------------------------- asyncio
    async def amain():
        aclients = {}
        for cell in a['cells']:
            if cell.get('cstream'):
                continue
            if cell['service'] not in aclients:
                aclients[cell['service']] = libs[cell.get('package', a['package'])].aio(cell['service'], clock)
            client, ch = aclients[cell['service']]
            meth = getattr(client, cell['py'])
            for hist in histories(cell, a['all_codes'], a['depth']):
                out['histories'] += 1
                ch.log.clear()
                ch.script = script(hist, cell.get('stream', False))
                clock.sleeps.clear()
                exc = None
                try:
                    r_ = await meth(request={'name': 'n'})
                    if cell.get('stream'):
                        [x async for x in r_]
                except BaseException as e:
                    exc = e
                out['attempts'] += len(ch.log)
                exp = expect(cell, hist)
                if judge(cell, 'asyncio', hist, exc, list(ch.log), list(clock.sleeps), clock.t, exp) is True:
                    check_timeouts(cell, 'asyncio', hist, list(ch.log), cell['timeout'], exp[3])
                    out['outcomes']['ok-history'] = out['outcomes'].get('ok-history', 0) + 1
                if len(ch.log) >= 2:
                    out['nontrivial_total'] += 1
                    if len(out['nontrivial']) < 800:
                        out['nontrivial'].append(f'{cell["id"]}|asyncio|{"-".join(hist)}')
            for name, kw, hist, ref in overrides(cell):
                out['histories'] += 1
                if kw == 'CUSTOM':
                    kw = dict(retry=retry_async.AsyncRetry(predicate=retries.if_exception_type(core_exc.NotFound), initial=1.0,
                                                           maximum=1.0, multiplier=1.0, timeout=10.0), timeout=10.0)
                ch.log.clear()
                ch.script = script(hist, cell.get('stream', False))
                clock.sleeps.clear()
                exc = None
                try:
                    r_ = await meth(request={'name': 'n'}, **kw)
                    if cell.get('stream'):
                        [x async for x in r_]
                except BaseException as e:
                    exc = e
                exp = expect(cell, hist, **ref)
                if judge(cell, 'asyncio', hist, exc, list(ch.log), list(clock.sleeps), clock.t, exp, what=f'[{name}]') is True and 'timeout' in ref:
                    check_timeouts(cell, 'asyncio', hist, list(ch.log), ref['timeout'], exp[3], what=f'[{name}]')

    asyncio.run(amain())
    return out


if __name__ == '__main__':
    probelib.run(main)
