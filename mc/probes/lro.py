"""C08 probe: operation futures over sync gRPC, asyncio gRPC and REST, all poll histories."""
import asyncio
import json
import urllib.parse

from mc import probelib, seams

clock = seams.VirtualClock().install()

from google.api_core import exceptions as core_exc  # noqa: E402
from google.longrunning import operations_pb2  # noqa: E402
from google.protobuf import any_pb2, empty_pb2, struct_pb2, json_format  # noqa: E402
from google.rpc import status_pb2  # noqa: E402

ERRORS = {'NOT_FOUND': (5, 'NotFound'), 'ABORTED': (10, 'Aborted'), 'INTERNAL': (13, 'InternalServerError')}
OP_NAMES = ['operations/op-1', 'projects/p1/operations/op-2']    # the second matches only the additional REST binding
OP_NAME = OP_NAMES[0]
POLL_PATH = '/google.longrunning.Operations/GetOperation'


def main(p):
    global OP_NAME
    a = p.args
    if a.get('op_name'):
        OP_NAME = a['op_name']
        OP_NAMES[0] = OP_NAME
    out = dict(histories=0, polls=0, failures=[], nontrivial=[], outcomes={}, samples=[])
    try:
        lib = probelib.Lib(a['package'])
    except BaseException as e:
        out['import_error'] = probelib.exc_info(e)
        return out
    tp = a['proto_package']

    def fail(cell, hist, kind, detail):
        if len(out['failures']) < 300:
            out['failures'].append(dict(cell=cell['id'], history=hist, kind=kind, detail=str(detail)[:400]))
        out['outcomes'][kind] = out['outcomes'].get(kind, 0) + 1

    def expected_class(full):
        if full == '.google.protobuf.Empty':
            return empty_pb2.Empty
        if full == '.google.protobuf.Struct':
            return struct_pb2.Struct
        return lib.type_of(full, tp)

    def payload(full, tag):
        D = p.cls(full)
        m = D()
        if full == '.google.protobuf.Struct':
            m.fields['k'].string_value = tag
        elif full != '.google.protobuf.Empty':
            probelib.fill_all(m, 2, len(tag))
        return m

    def pack(dyn):
        any_ = any_pb2.Any()
        any_.type_url = 'type.googleapis.com/' + dyn.DESCRIPTOR.full_name
        any_.value = dyn.SerializeToString()
        return any_

    def op(done, cell, outcome=None, name=None):
        o = operations_pb2.Operation(name=name or OP_NAME, done=done)
        o.metadata.CopyFrom(pack(payload(cell['meta'], 'm')))
        if done and outcome == 'response':
            o.response.CopyFrom(pack(payload(cell['resp'], 'r')))
        elif done:
            o.error.CopyFrom(status_pb2.Status(code=ERRORS[outcome][0], message='scripted failure'))
        return o

    def histories(cell):
        for outcome in ['response'] + list(ERRORS):
            yield ('done-at-once', outcome), [op(True, cell, outcome)]
            for k in range(0, a['max_k'] + 1):
                yield (f'not-done^{k + 1}', outcome), [op(False, cell)] * (k + 1) + [op(True, cell, outcome)]
        # an operation whose name only matches the additional GetOperation binding
        n2 = OP_NAMES[1]
        yield ('not-done^2/second-name', 'response'), [op(False, cell, name=n2)] * 2 + [op(True, cell, 'response', name=n2)]

    def judge(cell, hist, ops, polls, md, res, exc):
        """polls: list of (where, name) after the initial call."""
        exp_polls = len(ops) - 1
        if len(polls) != exp_polls:
            return fail(cell, hist, 'poll-count', f'{len(polls)} GetOperation calls, expected {exp_polls}')
        for where, name in polls:
            if not where:
                return fail(cell, hist, 'poll-target', f'poll went to {name}')
            exp_name = OP_NAMES[1] if hist[0].endswith('second-name') else OP_NAME
            if name != exp_name:
                return fail(cell, hist, 'poll-name', f'polled {name!r}, operation is {exp_name!r}')
        Emd = expected_class(cell['meta'])
        if md is not None and type(md) is not Emd:
            return fail(cell, hist, 'metadata-type', f'{type(md).__module__}.{type(md).__name__}, annotated {cell["meta"]}')
        if md is not None:
            got = p.cls(cell['meta']).FromString(probelib.wire_of(md))
            if got != payload(cell['meta'], 'm'):
                return fail(cell, hist, 'metadata-content', probelib.short(got))
        outcome = hist[1]
        if outcome == 'response':
            if exc is not None:
                return fail(cell, hist, 'unexpected-exception', probelib.exc_info(exc))
            Eres = expected_class(cell['resp'])
            if type(res) is not Eres:
                return fail(cell, hist, 'result-type', f'{type(res).__module__}.{type(res).__name__}, annotated {cell["resp"]}')
            got = p.cls(cell['resp']).FromString(probelib.wire_of(res))
            if got != payload(cell['resp'], 'r'):
                return fail(cell, hist, 'result-content', probelib.short(got))
        else:
            if exc is None:
                return fail(cell, hist, 'error-swallowed', f'result() returned {res!r} for a failed operation')
            # which GoogleAPICallError subclass is raised is api-core's business (AsyncOperation raises the base class)
            if not isinstance(exc, core_exc.GoogleAPICallError):
                return fail(cell, hist, 'error-mapping', f'{type(exc).__name__} is not a GoogleAPICallError')
        out['outcomes']['ok-history'] = out['outcomes'].get('ok-history', 0) + 1
        return True

    def note(cell, hist, ops):
        out['histories'] += 1
        out['polls'] += len(ops) - 1
        if len(ops) > 1:
            out['nontrivial'].append(f'{cell["id"]}|{hist[0]}|{hist[1]}')
        if len(out['samples']) < 2 and len(ops) >= 3 and hist[1] == 'response':
            out['samples'].append(dict(cell=cell['id'], history=list(hist), answers=['not done'] * (len(ops) - 1) + ['done: ' + hist[1]]))

    def raw_cell_check(cell, ret, n_calls):
        out['histories'] += 1
        if not isinstance(ret, operations_pb2.Operation):
            fail(cell, ('raw',), 'raw-operation-type', f'{type(ret).__module__}.{type(ret).__name__} returned for an unannotated method')
        elif n_calls != 1:
            fail(cell, ('raw',), 'raw-operation-polled', f'{n_calls} calls on the channel')
        else:
            out['outcomes']['ok-raw'] = out['outcomes'].get('ok-raw', 0) + 1

    if a.get('debug_logging'):
        # client logging switched on: the transports' logging interceptors see every request, the polls included
        import logging
        logging.getLogger().setLevel(logging.DEBUG)
        logging.getLogger().addHandler(logging.NullHandler())
    client_kind = a['client']
    if client_kind == 'sync':
        client, ch = lib.sync('Lro', clock)
        for cell in a['cells']:
            meth = getattr(client, cell['py'])
            if cell['kind'] == 'raw':
                ch.log.clear(); ch.script = [operations_pb2.Operation(name=OP_NAME).SerializeToString()]
                try:
                    raw_cell_check(cell, meth(request={'name': 'things/1'}), len(ch.log))
                except BaseException as e:
                    fail(cell, ('raw',), 'exception', probelib.exc_info(e))
                continue
            for hist, ops in histories(cell):
                ch.log.clear()
                ch.script = [o.SerializeToString() for o in ops]
                md = res = exc = None
                try:
                    fut = meth(request={'name': 'things/1'})
                    md = fut.metadata
                    try:
                        res = fut.result()
                    except core_exc.GoogleAPICallError as e:
                        exc = e
                except BaseException as e:
                    fail(cell, hist, 'exception', probelib.exc_info(e))
                    note(cell, hist, ops)
                    continue
                polls = [(e['path'] == POLL_PATH and e['kind'] == 'unary_unary',
                          operations_pb2.GetOperationRequest.FromString(e['raw']).name if e['path'] == POLL_PATH else e['path'])
                         for e in ch.log[1:]]
                judge(cell, hist, ops, polls, md, res, exc)
                note(cell, hist, ops)
    elif client_kind == 'asyncio':
        async def amain():
            client, ch = lib.aio('Lro', clock)
            for cell in a['cells']:
                meth = getattr(client, cell['py'])
                if cell['kind'] == 'raw':
                    ch.log.clear(); ch.script = [operations_pb2.Operation(name=OP_NAME).SerializeToString()]
                    try:
                        raw_cell_check(cell, await meth(request={'name': 'things/1'}), len(ch.log))
                    except BaseException as e:
                        fail(cell, ('raw',), 'exception', probelib.exc_info(e))
                    continue
                for hist, ops in histories(cell):
                    ch.log.clear()
                    ch.script = [o.SerializeToString() for o in ops]
                    md = res = exc = None
                    try:
                        fut = await meth(request={'name': 'things/1'})
                        md = fut.metadata
                        try:
                            res = await fut.result()
                        except core_exc.GoogleAPICallError as e:
                            exc = e
                    except BaseException as e:
                        fail(cell, hist, 'exception', probelib.exc_info(e))
                        note(cell, hist, ops)
                        continue
                    polls = [(e['path'] == POLL_PATH and e['kind'] == 'unary_unary',
                              operations_pb2.GetOperationRequest.FromString(e['raw']).name if e['path'] == POLL_PATH else e['path'])
                             for e in ch.log[1:]]
                    judge(cell, hist, ops, polls, md, res, exc)
                    note(cell, hist, ops)
        asyncio.run(amain())
    else:
        seam = seams.HttpSeam(clock).install()
        client = lib.rest('Lro')
        for cell in a['cells']:
            meth = getattr(client, cell['py'])
            if cell['kind'] == 'raw':
                seam.log.clear()
                seam.script = [(200, json_format.MessageToJson(operations_pb2.Operation(name=OP_NAME)).encode())]
                try:
                    raw_cell_check(cell, meth(request={'name': 'things/1'}), len(seam.log))
                except BaseException as e:
                    fail(cell, ('raw',), 'exception', probelib.exc_info(e))
                continue
            for hist, ops in histories(cell):
                seam.log.clear()
                seam.script = [(200, json_format.MessageToJson(o, descriptor_pool=p.pool).encode()) for o in ops]
                if a.get('unknown_member'):
                    # a newer server: the first reply carries a member this client does not know
                    first = json.loads(seam.script[0][1])
                    first['selfLink'] = 'https://example.com/ops/1'
                    seam.script[0] = (200, json.dumps(first).encode())
                md = res = exc = None
                try:
                    fut = meth(request={'name': 'things/1'})
                    md = fut.metadata
                    try:
                        res = fut.result()
                    except core_exc.GoogleAPICallError as e:
                        exc = e
                except BaseException as e:
                    fail(cell, hist, 'exception', probelib.exc_info(e))
                    note(cell, hist, ops)
                    continue
                polls = []
                first = urllib.parse.urlsplit(seam.log[0]['url']) if seam.log else None
                for e in seam.log[1:]:
                    u = urllib.parse.urlsplit(e['url'])
                    if (u.scheme, u.netloc) != (first.scheme, first.netloc):
                        # "on the same channel": for REST, the same scheme://host:port the transport talks to
                        fail(cell, hist, 'poll-endpoint', f'poll went to {u.scheme}://{u.netloc}, the call itself to {first.scheme}://{first.netloc}')
                        break
                    pre = a.get('poll_prefix', '/v1/')
                    polls.append((e['verb'] == 'GET' and u.path.startswith(pre) and ('/operations/' in u.path or u.path.startswith(pre + 'operations')),
                                  u.path[len(pre):] if u.path.startswith(pre) else u.path))
                judge(cell, hist, ops, polls, md, res, exc)
                note(cell, hist, ops)
    return out


if __name__ == '__main__':
    probelib.run(main)
