"""C17 probe: presence of the ten mixin methods and one driven call per present method."""
import asyncio
import json
import urllib.parse

from google.cloud.location import locations_pb2  # noqa: F401
from google.iam.v1 import iam_policy_pb2, policy_pb2  # noqa: F401
from google.longrunning import operations_pb2  # noqa: F401
from google.protobuf import json_format, symbol_database

from mc import probelib, seams
from mc.ref import names, http

HDR = 'x-goog-request-params'


def main(p):
    a = p.args
    out = dict(present={}, calls=0, failures=[])
    try:
        lib = probelib.Lib(a['package'])
    except BaseException as e:
        return dict(import_error=probelib.exc_info(e))
    sym = symbol_database.Default()
    transports = a['transport'].split('+')
    SVC = a.get('service', 'Lib')
    C = lib.client_cls(SVC)
    A = getattr(lib.pkg, SVC + 'AsyncClient', None)
    out['present']['sync'] = sorted(m for m in a['canon'] if hasattr(C, names.py_method(m)))
    if A is not None:
        out['present']['async'] = sorted(m for m in a['canon'] if hasattr(A, names.py_method(m)))

    def fail(method, path, kind, detail):
        out['failures'].append(dict(method=method, path=path, kind=kind, detail=str(detail)[:400]))

    def canon_classes(m):
        api, gpath, rq, rs, fld = a['canon'][m]
        return gpath, sym.GetSymbol(rq), (sym.GetSymbol(rs) if rs else None), fld

    def reply_bytes(Rs):
        if Rs is None:
            from google.protobuf import empty_pb2
            return empty_pb2.Empty().SerializeToString(), None
        r = Rs()
        if hasattr(r, 'name') and Rs.DESCRIPTOR.fields_by_name.get('name') is not None and Rs.DESCRIPTOR.fields_by_name['name'].type == 9:
            r.name = 'reply-name'
        elif Rs.DESCRIPTOR.fields_by_name.get('permissions') is not None:
            r.permissions.append('perm.one')
        elif Rs.DESCRIPTOR.fields_by_name.get('next_page_token') is not None:
            r.next_page_token = ''
        elif Rs.DESCRIPTOR.fields_by_name.get('etag') is not None:
            r.etag = b'tag'
        return r.SerializeToString(), r

    def check_grpc(m, path, e, ret, own):
        gpath, Rq, Rs, fld = canon_classes(m)
        if e['kind'] != 'unary_unary':
            fail(m, path, 'arity', e['kind'])
        if own and a.get('own_path') and e['path'] != a['own_path']:
            fail(m, path, 'own-rpc-path', f'{e["path"]}: the API\'s own RPC lives at {a["own_path"]}')
        if not own and e['path'] != gpath:
            fail(m, path, 'grpc-path', f'{e["path"]} != {gpath}')
        try:
            req = Rq.FromString(e['raw'])
            if getattr(req, fld) != a['values'][m]:
                fail(m, path, 'request-payload', f'{fld}={getattr(req, fld)!r}')
        except Exception as ex:
            fail(m, path, 'request-undecodable', ex)
        hdr = dict(e['metadata'] or []).get(HDR)
        pairs = dict(urllib.parse.parse_qsl(hdr or '', keep_blank_values=True))
        if pairs != {fld: a['values'][m]}:
            fail(m, path, 'routing-header', f'{hdr!r} decodes to {pairs}, expected {{{fld!r}: {a["values"][m]!r}}}')
        if Rs is None:
            if ret is not None:
                fail(m, path, 'void-not-none', type(ret).__name__)
        elif not isinstance(ret, Rs) and not (hasattr(ret, 'pages')):
            fail(m, path, 'response-type', f'{type(ret).__module__}.{type(ret).__name__}, canonical {Rs.DESCRIPTOR.full_name}')

    def methods_to_drive(kind):
        ms = list(out['present'].get(kind, []))
        return ms

    if 'grpc' in transports:
        client, ch = lib.sync(SVC)
        for m in methods_to_drive('sync'):
            own = a['own_iam'] and m == 'SetIamPolicy'
            gpath, Rq, Rs, fld = canon_classes(m)
            raw, _ = reply_bytes(Rs)
            ch.log.clear(); ch.script = [raw]
            try:
                ret = getattr(client, names.py_method(m))(request={fld: a['values'][m]})
                out['calls'] += 1
                if len(ch.log) != 1:
                    fail(m, 'sync', 'call-count', len(ch.log))
                else:
                    check_grpc(m, 'sync', ch.log[0], ret, own)
            except BaseException as e:
                fail(m, 'sync', 'exception', probelib.exc_info(e))

        async def amain():
            ac, ach = lib.aio(SVC)
            for m in methods_to_drive('async'):
                own = a['own_iam'] and m == 'SetIamPolicy'
                gpath, Rq, Rs, fld = canon_classes(m)
                raw, _ = reply_bytes(Rs)
                ach.log.clear(); ach.script = [raw]
                try:
                    ret = await getattr(ac, names.py_method(m))(request={fld: a['values'][m]})
                    out['calls'] += 1
                    if len(ach.log) != 1:
                        fail(m, 'asyncio', 'call-count', len(ach.log))
                    else:
                        check_grpc(m, 'asyncio', ach.log[0], ret, own)
                except BaseException as e:
                    fail(m, 'asyncio', 'exception', probelib.exc_info(e))
        asyncio.run(amain())

    if 'rest' in transports:
        seam = seams.HttpSeam().install()
        rc = lib.rest(SVC)
        for m in methods_to_drive('sync'):
            own = a['own_iam'] and m == 'SetIamPolicy'
            if own or (a['legacy'] and m in ('SetIamPolicy', 'GetIamPolicy', 'TestIamPermissions') and m not in a.get('ruled', a['rules'])):
                continue
            gpath, Rq, Rs, fld = canon_classes(m)
            _, robj = reply_bytes(Rs)
            verb, path, body, extra = a['rules'][m]
            bindings = [(verb, path, body)] + [tuple(x) for x in extra]
            # one call per declared binding: the primary one and every additional binding
            values = [a['values'][m]]
            for xv, xp, xb in extra:
                from mc.ref import routing
                var, sub = http.variables(xp)[0]
                _, toks = routing.parse_template('{x=' + sub + '}')
                values.append(routing.instantiate(toks, star='z9', dstar='z9'))
            for bi_expected, value in enumerate(values):
                seam.log.clear()
                seam.script = [(200, (json_format.MessageToJson(robj) if robj is not None else '{}').encode())]
                tag = 'rest' if bi_expected == 0 else f'rest-binding{bi_expected}'
                try:
                    ret = getattr(rc, names.py_method(m))(request={fld: value})
                    out['calls'] += 1
                except NotImplementedError:
                    if a['legacy']:
                        break      # legacy IAM methods have no http rule: nothing to transcode
                    fail(m, tag, 'notimplemented', 'mixin with an http rule refuses REST')
                    continue
                except BaseException as e:
                    fail(m, tag, 'exception', probelib.exc_info(e))
                    continue
                if len(seam.log) != 1:
                    fail(m, tag, 'call-count', len(seam.log))
                    continue
                e = seam.log[0]
                try:
                    got, bi, qkeys = http.reconstruct(Rq, bindings, e['verb'], e['url'], e['body'], False)
                    if getattr(got, fld) != value:
                        fail(m, tag, 'request-payload', f'{fld}={getattr(got, fld)!r}')
                except http.Mismatch as mm:
                    fail(m, tag, 'rest-' + mm.kind, f'{mm.detail} | {e["verb"]} {e["url"]} {e["body"]!r}')
                if Rs is None:
                    if ret is not None:
                        fail(m, tag, 'void-not-none', type(ret).__name__)
                elif not isinstance(ret, Rs) and not hasattr(ret, 'pages'):
                    fail(m, tag, 'response-type', f'{type(ret).__module__}.{type(ret).__name__}, canonical {Rs.DESCRIPTOR.full_name}')
    return out


if __name__ == '__main__':
    probelib.run(main)
