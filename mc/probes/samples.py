"""C14 probe: compile and run every generated sample unmodified; check metadata and docstrings."""
import asyncio
import glob
import importlib.util
import inspect
import json
import os
import re
import textwrap

from mc import probelib, seams
from mc.ref import names

clock = seams.VirtualClock().install()

import google.auth  # noqa: E402
from google.auth.credentials import AnonymousCredentials  # noqa: E402
from google.api_core import grpc_helpers, grpc_helpers_async  # noqa: E402
from google.api import field_behavior_pb2  # noqa: E402
from google.longrunning import operations_pb2  # noqa: E402
from google.protobuf import json_format  # noqa: E402
from mc.probelib import FD  # noqa: E402

CHANNELS = []


def main(p):
    a = p.args
    out = dict(samples_run=0, failures=[], nontrivial=[], outcomes={}, samples=[])
    tp = a['proto_package']
    methods = {}
    for f in p.req.proto_file:
        if f.package == tp:
            for s in f.service:
                for m in s.method:
                    methods[f'/{tp}.{s.name}/{m.name}'] = m

    def reply_for(path):
        m = methods.get(path)
        if m is None:
            if path.endswith('/GetOperation'):
                return operations_pb2.Operation(name='operations/o', done=True)
            raise seams.ScriptExhausted(path)
        if m.output_type == '.google.longrunning.Operation':
            res = p.cls(f'.{tp}.LroResult')(out='done')
            op = operations_pb2.Operation(name='operations/o', done=True)
            op.response.type_url = 'type.googleapis.com/' + res.DESCRIPTOR.full_name
            op.response.value = res.SerializeToString()
            return op
        D = p.cls(m.output_type)
        r = D()
        if m.output_type.endswith('.PagedResp'):
            r.items.add(name='i0')
        elif m.output_type.endswith('.Resp'):
            r.ok, r.text = True, 't'
        return r

    def responder(kind, path):
        r = reply_for(path)
        raw = r.SerializeToString()
        return [raw, raw] if kind.endswith('_stream') else raw

    def mk_sync(*a_, **k):
        ch = seams.FakeChannel(clock)
        ch.responder = responder
        CHANNELS.append(ch)
        return ch

    def mk_aio(*a_, **k):
        ch = seams.FakeAioChannel(clock)
        ch.responder = responder
        CHANNELS.append(ch)
        return ch

    google.auth.default = lambda *a_, **k: (AnonymousCredentials(), 'proj')
    grpc_helpers.create_channel = mk_sync
    grpc_helpers_async.create_channel = mk_aio
    seam = seams.HttpSeam(clock).install()

    def http_responder(request):
        import urllib.parse
        path = urllib.parse.urlsplit(request.url).path
        for gp, m in methods.items():
            from google.api import annotations_pb2
            rule = m.options.Extensions[annotations_pb2.http]
            if rule.post and rule.post == path:
                r = reply_for(gp)
                js = json_format.MessageToJson(r, descriptor_pool=p.pool)
                if m.server_streaming:
                    js = '[' + js + ',' + js + ']'
                return (200, js.encode())
        return (200, json_format.MessageToJson(operations_pb2.Operation(name='operations/o', done=True)).encode())
    seam.responder = http_responder

    try:
        lib = probelib.Lib(a['package'])
    except BaseException as e:
        out['import_error'] = probelib.exc_info(e)
        return out

    def fail(cell, variant, kind, detail):
        out['failures'].append(dict(cell=cell['id'], variant=variant, kind=kind, detail=str(detail)[:400]))
        out['outcomes'][kind] = out['outcomes'].get(kind, 0) + 1

    sdir = os.path.join(os.getcwd(), 'samples', 'generated_samples')
    metas = glob.glob(os.path.join(sdir, 'snippet_metadata_*.json'))
    if len(metas) != 1:
        out['failures'].append(dict(cell='-', variant='-', kind='metadata-file-count', detail=str(metas)))
        return out
    md = json.load(open(metas[0]))
    by_tag = {}
    for s in md.get('snippets', []):
        by_tag.setdefault(s.get('regionTag'), []).append(s)
    all_tags_seen = []
    grpc_on = 'grpc' in a['transport'].split('+')

    def required_fields(desc_):
        for fd in desc_.fields:
            if field_behavior_pb2.REQUIRED in fd.GetOptions().Extensions[field_behavior_pb2.field_behavior]:
                yield fd

    def populated(msg, fd, src_text):
        if fd.label == FD.LABEL_REPEATED:
            ok = len(getattr(msg, fd.name)) > 0
        elif fd.has_presence:
            ok = msg.HasField(fd.name)
        else:
            ok = getattr(msg, fd.name) != fd.default_value
        return ok or re.search(r'\b' + re.escape(names.py_field(fd.name)) + r'\s*=', src_text) is not None

    def check_request(cell, variant, req_msg, src_text):
        def walk(msg, depth):
            for fd in required_fields(msg.DESCRIPTOR):
                if not populated(msg, fd, src_text):
                    fail(cell, variant, 'required-not-populated', f'{msg.DESCRIPTOR.name}.{fd.name} left unset in the request the sample sent')
                elif fd.type == FD.TYPE_MESSAGE and fd.label != FD.LABEL_REPEATED and depth < 4 and msg.HasField(fd.name):
                    walk(getattr(msg, fd.name), depth + 1)
            for o in msg.DESCRIPTOR.oneofs:
                if probelib._synthetic(o):
                    continue
                if msg.WhichOneof(o.name) is None:
                    fail(cell, variant, 'oneof-not-populated', f'no member of oneof {msg.DESCRIPTOR.name}.{o.name} set')
        walk(req_msg, 0)

    for cell in a['cells']:
        rpc = cell['rpc']
        py = names.py_method(rpc)
        svc_name = cell.get('service', a['service'])
        gpath = f'/{tp}.{svc_name}/{rpc}'
        rest_only = a['transport'] == 'rest'
        for variant in ('sync', 'async'):
            tag = f'{cell.get("shortname", a["shortname"])}_{a["version"]}_generated_{svc_name}_{rpc}_{variant}'
            entries = by_tag.get(tag, [])
            if variant == 'async' and not grpc_on:
                if entries:
                    fail(cell, variant, 'async-sample-without-grpc', tag)
                continue
            if len(entries) != 1:
                fail(cell, variant, 'sample-count', f'{len(entries)} snippets with region tag {tag}')
                continue
            all_tags_seen.append(tag)
            ent = entries[0]
            path = os.path.join(sdir, ent.get('file', ''))
            if not os.path.isfile(path):
                fail(cell, variant, 'file-missing', ent.get('file'))
                continue
            text = open(path).read()
            lines = text.splitlines()
            try:
                compile(text, path, 'exec')
            except SyntaxError as e:
                fail(cell, variant, 'does-not-compile', f'{e.msg} line {e.lineno}')
                continue
            starts = [i for i, l in enumerate(lines, 1) if l.startswith('# [START ')]
            ends = [i for i, l in enumerate(lines, 1) if l.startswith('# [END ')]
            if len(starts) != 1 or len(ends) != 1 or lines[starts[0] - 1] != f'# [START {tag}]' or lines[ends[0] - 1] != f'# [END {tag}]':
                fail(cell, variant, 'region-tags', f'START lines {starts} END lines {ends}')
                continue
            segs = {s['type']: s for s in ent.get('segments', [])}
            for k in ('FULL', 'SHORT'):
                s = segs.get(k, {})
                if s.get('start') != starts[0] + 1 or s.get('end') != ends[0] - 1:
                    fail(cell, variant, 'segment-' + k.lower(), f'{s} but tags are on lines {starts[0]} and {ends[0]}')
            order = [segs.get(k) for k in ('CLIENT_INITIALIZATION', 'REQUEST_INITIALIZATION', 'REQUEST_EXECUTION', 'RESPONSE_HANDLING')]
            prev_end = None
            for s in order:
                if s is None:
                    fail(cell, variant, 'segment-missing', sorted(segs))
                    break
                if prev_end is not None and 'start' in s and s['start'] != prev_end + 1:
                    fail(cell, variant, 'segments-not-contiguous', [x for x in order])
                    break
                if 'start' in s and 'end' in s and s['end'] < s['start']:
                    fail(cell, variant, 'segment-inverted', s)
                    break
                prev_end = s.get('end', prev_end)
            # the metadata's client / method / parameters
            cm = ent.get('clientMethod', {})
            cname = cm.get('client', {}).get('shortName')
            C = getattr(lib.pkg, cname, None) if cname else None
            mname = cm.get('shortName')
            if C is not None and mname and cm.get('fullName') != f'{a["package"]}.{cname}.{mname}':
                fail(cell, variant, 'metadata-method-fullname', f'{cm.get("fullName")!r} expected {a["package"]}.{cname}.{mname}')
            if C is None or cm.get('client', {}).get('fullName') != f'{a["package"]}.{cname}':
                fail(cell, variant, 'metadata-client', cm.get('client'))
            else:
                exp_c = svc_name + ('AsyncClient' if variant == 'async' else 'Client')
                if cname != exp_c:
                    fail(cell, variant, 'metadata-client-kind', f'{cname} expected {exp_c}')
                mname = cm.get('shortName')
                meth = getattr(C, mname, None) if mname else None
                if meth is None or mname != py:
                    fail(cell, variant, 'metadata-method', f'{mname!r} (client method is {py!r})')
                else:
                    sig = [n for n in inspect.signature(meth).parameters if n != 'self']
                    got = [x.get('name') for x in cm.get('parameters', [])]
                    if got != sig:
                        fail(cell, variant, 'metadata-parameters', f'{got} != signature {sig}')
                    # the snippet embedded in the docstring (sync snippet in the sync client, async in the async client)
                    doc = meth.__doc__ or ''
                    m = re.search(r'\.\. code-block:: python\n(.*?)(?:\n\s*Args:|\Z)', doc, re.S)
                    snippet = textwrap.dedent('\n'.join(lines[starts[0]:ends[0] - 1])).strip('\n')
                    if not m:
                        fail(cell, variant, 'docstring-no-snippet', doc[:80])
                    else:
                        emb = textwrap.dedent(m.group(1)).strip('\n')
                        # the whitespace post-processor may collapse blank lines inside the client module
                        nb = lambda t: [l.rstrip() for l in t.splitlines() if l.strip()]
                        if nb(emb) != nb(snippet):
                            fail(cell, variant, 'docstring-snippet-differs', f'docstring has {len(emb.splitlines())} lines, file has {len(snippet.splitlines())} between the tags')
            if rest_only and cell['form'] in ('client-stream', 'bidi'):
                continue      # the REST transport does not support client streaming: nothing could accept the call
            result_type = cm.get('resultType')
            client_cls, client_meth = C, (getattr(C, mname, None) if C is not None and mname else None)
            # the metadata's result type against what the generated client actually returns (an empty request is accepted by the server)
            if client_meth is not None:
                try:
                    verdict = check_result_type(lib, tp, cell, client_cls, mname, p.cls(cell['req'])(), result_type)
                except BaseException as e:
                    verdict = f'client call failed: {type(e).__name__}: {str(e)[:200]}'
                if verdict:
                    fail(cell, variant, 'metadata-result-type', verdict)
            # run it, unmodified
            del CHANNELS[:]
            seam.log.clear()
            try:
                spec = importlib.util.spec_from_file_location(f'sample_{len(all_tags_seen)}', path)
                mod = importlib.util.module_from_spec(spec)
                spec.loader.exec_module(mod)
                fn = getattr(mod, 'sample_' + names.snake(rpc), None) or [v for k, v in vars(mod).items() if k.startswith('sample_') and callable(v)][0]
                import contextlib
                import io
                with contextlib.redirect_stdout(io.StringIO()):
                    if inspect.iscoroutinefunction(fn):
                        asyncio.run(fn())
                    else:
                        fn()
                out['samples_run'] += 1
            except BaseException as e:
                out['samples_run'] += 1
                info = probelib.exc_info(e)
                cls = ('pager-not-awaited' if "'async for' requires" in info['emsg'] else
                       'single-value-for-repeated-field' if 'is not iterable' in info['emsg'] else info['etype'])
                fail(cell, variant, 'sample-raised:' + cls, info)
                continue
            sent = [e for ch in CHANNELS for e in ch.log if e['path'] == gpath]
            D = p.cls(cell['req'])
            reqs = []
            for e in sent:
                raws = e['raw'] if isinstance(e['raw'], list) else [e['raw']]
                reqs += [D.FromString(r) for r in raws]
            if not sent:
                # REST default transport
                rule_path = None
                from google.api import annotations_pb2
                rule = methods[gpath].options.Extensions[annotations_pb2.http]
                hits = [e for e in seam.log if rule.post and e['url'].split('?')[0].endswith(rule.post)]
                for e in hits:
                    try:
                        reqs.append(json_format.Parse(e['body'] or b'{}', D()))
                    except Exception as ex:
                        fail(cell, variant, 'rest-body-unreadable', ex)
                if not hits:
                    fail(cell, variant, 'no-call-made', f'the sample returned without calling {gpath} ({[e["path"] for ch in CHANNELS for e in ch.log]})')
                    continue
            if not reqs and cell['form'] not in ('client-stream', 'bidi'):
                fail(cell, variant, 'no-request', 'call without request')
                continue
            init = segs.get('REQUEST_INITIALIZATION', {})
            src = '\n'.join(lines[init.get('start', 1) - 1:init.get('end', len(lines))])
            for r in reqs[:1]:
                check_request(cell, variant, r, src)
            if not reqs:
                fail(cell, variant, 'empty-request-stream', 'the sample streamed no request')
            out['outcomes']['ok-sample'] = out['outcomes'].get('ok-sample', 0) + 1
            out['nontrivial'].append(f'{cell["id"]}|{variant}')
            if len(out['samples']) < 2 and reqs:
                out['samples'].append(dict(cell=cell['id'], variant=variant, file=ent['file'], request=probelib.short(reqs[0])))
    dup = {t for t in all_tags_seen if all_tags_seen.count(t) > 1}
    if dup:
        out['failures'].append(dict(cell='-', variant='-', kind='duplicate-region-tag', detail=str(sorted(dup))))
    extra = set(by_tag) - set(all_tags_seen)
    if extra and len(a['cells']) > 50:
        out['failures'].append(dict(cell='-', variant='-', kind='unexpected-snippets', detail=str(sorted(extra))[:300]))
    return out


def _resolve(dotted):
    mod, _, attr = dotted.rpartition('.')
    try:
        return getattr(importlib.import_module(mod), attr)
    except BaseException:
        return None


def check_result_type(lib, tp, cell, C, mname, req_msg, result_type):
    """-> None when the declared resultType describes the value the client method returns, else a description."""
    G = lib.type_of(cell['req'], tp)
    if G is not None:
        greq = G.deserialize(req_msg.SerializeToString())
    else:
        greq = probelib._default_pool_instance(req_msg)
    streaming_in = cell['form'] in ('client-stream', 'bidi')
    box = {}

    async def acall():
        client = C()
        ret = getattr(client, mname)(**(dict(requests=iter([greq])) if streaming_in else dict(request=greq)))
        if inspect.isawaitable(ret):
            ret = await ret
        if hasattr(ret, '__aiter__') and not hasattr(ret, 'pages') and not hasattr(ret, 'result'):
            box['items'] = [x async for x in ret]
        elif inspect.isawaitable(ret):
            ret = await ret
        box['ret'] = ret

    if inspect.iscoroutinefunction(getattr(C, mname)) or C.__name__.endswith('AsyncClient'):
        asyncio.run(acall())
    else:
        client = C()
        ret = getattr(client, mname)(**(dict(requests=iter([greq])) if streaming_in else dict(request=greq)))
        if hasattr(ret, '__iter__') and not hasattr(ret, 'pages') and not hasattr(ret, 'result') and not hasattr(type(ret), 'pb') \
                and not hasattr(ret, 'DESCRIPTOR'):
            box['items'] = list(ret)
        box['ret'] = ret
    ret = box['ret']
    if not result_type:
        return None if ret is None else f'no resultType declared, the client returned {type(ret).__name__}'
    m = re.fullmatch(r'(?:Async)?Iterable\[(.+)\]', result_type)
    if m:
        cls = _resolve(m.group(1))
        if 'items' not in box:
            return f'resultType {result_type} but the client returned {type(ret).__module__}.{type(ret).__name__}, not a stream'
        if cls is None:
            return f'resultType {result_type} does not resolve to a class'
        bad = [type(x).__name__ for x in box['items'] if not isinstance(x, cls)]
        return f'stream items are {bad[:2]}, declared {result_type}' if bad else None
    cls = _resolve(result_type)
    if cls is None:
        return f'resultType {result_type} does not resolve to a class'
    if 'items' in box:
        return f'resultType {result_type} but the client returned a stream'
    if not isinstance(ret, cls):
        return f'resultType {result_type} but the client returned {type(ret).__module__}.{type(ret).__name__}'
    return None


if __name__ == '__main__':
    probelib.run(main)
