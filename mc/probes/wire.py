"""C02 probe: emitted message/enum classes vs the input descriptors."""
import json

from mc import probelib
from mc.probelib import FD
from mc.ref import names, http


def main(p):
    a = p.args
    out = dict(messages=0, enums=0, valuations=0, roundtrips=0, failures=[], nontrivial=[], outcomes={}, samples=[])
    try:
        lib = probelib.Lib(a['package'])
    except BaseException as e:
        out['import_error'] = probelib.exc_info(e)
        return out
    tp = a['proto_package']
    cell_of = a.get('cell_of') or {}
    seen = set()

    def fail(full, kind, detail, cls=None):
        short = full[len(tp) + 1:]
        top = short.split('.')[0]
        c = cls or cell_of.get(top) or short
        if (kind, c) in seen:
            return
        seen.add((kind, c))
        out['failures'].append(dict(message=short, kind=kind, cls=c, detail=str(detail)[:500]))
        out['outcomes'][kind] = out['outcomes'].get(kind, 0) + 1

    def ok(k, n=1):
        out['outcomes'][k] = out['outcomes'].get(k, 0) + n

    def walk_msgs(prefix, seq):
        for m in seq:
            full = f'{prefix}.{m.name}'
            if m.options.map_entry:
                continue
            yield full, m
            yield from walk_msgs(full, m.nested_type)

    def walk_enums(prefix, msgs, enums):
        for e in enums:
            yield f'{prefix}.{e.name}', e
        for m in msgs:
            yield from walk_enums(f'{prefix}.{m.name}', m.nested_type, m.enum_type)

    only = set(a.get('only_messages') or [])
    for f in p.req.proto_file:
        if f.name not in p.req.file_to_generate:
            continue
        # ------------------------------------------------------------- enums
        for full, e in walk_enums(f.package, f.message_type, f.enum_type):
            if only and full[len(tp) + 1:] not in only:
                continue
            out['enums'] += 1
            try:
                G = lib.type_of(full, tp)
            except AttributeError as ex:
                fail(full, 'enum-missing', ex)
                continue
            exp = {v.name: v.number for v in e.value}
            try:
                got = {n: int(m.value) for n, m in G.__members__.items()}
            except BaseException as ex:
                fail(full, 'enum-introspection', probelib.exc_info(ex))
                continue
            if got != exp:
                fail(full, 'enum-values', f'{got} != {exp}')
            else:
                ok('ok-enum')
        # ---------------------------------------------------------- messages
        for full, m in walk_msgs(f.package, f.message_type):
            if only and full[len(tp) + 1:] not in only:
                continue
            out['messages'] += 1
            D = p.cls(full)
            try:
                G = lib.type_of(full, tp)
                gd = G.pb().DESCRIPTOR
            except BaseException as ex:
                fail(full, 'class-missing', probelib.exc_info(ex))
                continue
            check_descriptor(full, D.DESCRIPTOR, gd, G, fail, ok)
            # ------------------------------------------------- round trips
            for label, dyn in probelib.valuations(D, depth=2, seed=a.get('seed', 0), max_variants=5 if a.get('thorough') else 4):
                out['valuations'] += 1
                raw = dyn.SerializeToString(deterministic=True)
                # dynamic -> bytes -> class -> bytes -> dynamic
                try:
                    g = G.deserialize(raw)
                    back = D.FromString(G.serialize(g))
                    out['roundtrips'] += 1
                    if back != dyn:
                        fail(full, 'roundtrip-wire', f'[{label}] {probelib.short(dyn)!r} came back as {probelib.short(back)!r}',
                             cls=None if cell_of else f'{full[len(tp) + 1:]}:{label.split("#")[0]}')
                        continue
                except BaseException as ex:
                    fail(full, 'roundtrip-wire-exception', f'[{label}] {probelib.exc_info(ex)}',
                         cls=None if cell_of else f'{full[len(tp) + 1:]}:{label.split("#")[0]}')
                    continue
                # keyword construction -> bytes -> dynamic
                try:
                    kw = probelib.native(dyn)
                    g2 = G(**kw) if all(k.isidentifier() for k in kw) else G(kw)
                    back2 = D.FromString(G.serialize(g2))
                    out['roundtrips'] += 1
                    if back2 != dyn:
                        fail(full, 'roundtrip-kwargs', f'[{label}] built from {str(kw)[:150]} -> {probelib.short(back2)!r}, expected {probelib.short(dyn)!r}',
                             cls=None if cell_of else f'{full[len(tp) + 1:]}:{label.split("#")[0]}')
                        continue
                except BaseException as ex:
                    fail(full, 'roundtrip-kwargs-exception', f'[{label}] {probelib.exc_info(ex)}',
                         cls=None if cell_of else f'{full[len(tp) + 1:]}:{label.split("#")[0]}')
                    continue
                # JSON keys = lowerCamel of the proto names
                try:
                    obj = json.loads(G.to_json(g, use_integers_for_enums=False))
                    rd = D()
                    http.read_json(rd, obj, False, 'to_json')
                    out['roundtrips'] += 1
                    if rd != dyn and http.normalize(rd) != http.normalize(_copy(dyn)):
                        fail(full, 'json-roundtrip', f'[{label}] to_json gives {json.dumps(obj)[:200]} which reads as {probelib.short(rd)!r}',
                             cls=None if cell_of else f'{full[len(tp) + 1:]}:{label.split("#")[0]}')
                        continue
                except http.Mismatch as mm:
                    fail(full, 'json-' + mm.kind, f'[{label}] {mm.detail}', cls=None if cell_of else f'{full[len(tp) + 1:]}:{mm.key}')
                    continue
                except BaseException as ex:
                    fail(full, 'json-exception', f'[{label}] {probelib.exc_info(ex)}',
                         cls=None if cell_of else f'{full[len(tp) + 1:]}:{label.split("#")[0]}')
                    continue
                ok('ok-valuation')
                if label != 'empty':
                    out['nontrivial'].append(f'{full[len(tp) + 1:]}|{label}')
            if len(out['samples']) < 2 and len(m.field) >= 3:
                out['samples'].append(dict(message=full, fields=[fd.name for fd in m.field][:8]))
    if len(out['nontrivial']) > 3000:
        out['nontrivial_total'] = len(out['nontrivial'])
        out['nontrivial'] = out['nontrivial'][:3000]
    return out


def _copy(m):
    c = type(m)()
    c.CopyFrom(m)
    return c


def real_oneof(fd):
    o = fd.containing_oneof
    if o is None or probelib._synthetic(o):
        return None
    return o.name


def check_descriptor(full, idesc, gdesc, G, fail, ok):
    """Field-by-field comparison of the input descriptor with the emitted class's descriptor."""
    if gdesc.full_name != idesc.full_name:
        fail(full, 'message-full-name', f'the emitted class is registered as {gdesc.full_name}, the input declares {idesc.full_name}')
    inum = {fd.number: fd for fd in idesc.fields}
    gnum = {fd.number: fd for fd in gdesc.fields}
    if set(inum) != set(gnum):
        fail(full, 'fields-numbers', f'emitted numbers {sorted(gnum)} != declared {sorted(inum)}')
        return
    meta_fields = getattr(getattr(G, '_meta', None), 'fields', {})
    for num, ifd in inum.items():
        gfd = gnum[num]
        exp_attr = names.py_field(ifd.name)
        if gfd.name != exp_attr or exp_attr not in meta_fields:
            fail(full, 'attribute-name', f'field {ifd.name} (#{num}) is exposed as {gfd.name!r}, expected {exp_attr!r}')
        if gfd.type != ifd.type:
            fail(full, 'field-type', f'{ifd.name}: type {gfd.type} != {ifd.type}')
        if gfd.label != ifd.label:
            fail(full, 'field-label', f'{ifd.name}: label {gfd.label} != {ifd.label}')
        if ifd.type == FD.TYPE_MESSAGE:
            if probelib.is_map(ifd) != probelib.is_map(gfd):
                fail(full, 'field-map', f'{ifd.name}: map-ness differs')
            elif probelib.is_map(ifd):
                for part in ('key', 'value'):
                    a_, b_ = ifd.message_type.fields_by_name[part], gfd.message_type.fields_by_name[part]
                    if a_.type != b_.type or _tn(a_) != _tn(b_):
                        fail(full, 'map-entry-type', f'{ifd.name}.{part}: {b_.type}/{_tn(b_)} != {a_.type}/{_tn(a_)}')
            elif gfd.message_type.full_name != ifd.message_type.full_name:
                fail(full, 'field-message-type', f'{ifd.name}: refers to {gfd.message_type.full_name}, declared {ifd.message_type.full_name}')
        if ifd.type == FD.TYPE_ENUM and gfd.enum_type is not None and gfd.enum_type.full_name != ifd.enum_type.full_name:
            fail(full, 'field-enum-type', f'{ifd.name}: refers to {gfd.enum_type.full_name}, declared {ifd.enum_type.full_name}')
        if real_oneof(ifd) != real_oneof(gfd):
            fail(full, 'oneof-membership', f'{ifd.name}: oneof {real_oneof(gfd)!r} != {real_oneof(ifd)!r}')
        if ifd.has_presence != gfd.has_presence:
            fail(full, 'presence', f'{ifd.name}: explicit presence {gfd.has_presence} != {ifd.has_presence}')
    ok('ok-descriptor')


def _tn(fd):
    if fd.type == FD.TYPE_MESSAGE:
        return fd.message_type.full_name
    if fd.type == FD.TYPE_ENUM:
        return fd.enum_type.full_name
    return None


if __name__ == '__main__':
    probelib.run(main)
