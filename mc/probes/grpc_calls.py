"""C03 probe: drive every method cell through the sync and asyncio gRPC clients."""
import asyncio
import importlib
import inspect

from mc import probelib, seams
from mc.probelib import FD


def VOID(cell):
    return cell['resp'] == '.google.protobuf.Empty'


class MultiLib:
    """The emitted library, with services that live in proto sub-packages looked up in their own python sub-package."""

    def __init__(self, package, svc_package):
        self.root = probelib.Lib(package)
        self.pkg = self.root.pkg
        self.subs = {svc: probelib.Lib(pk) for svc, pk in svc_package.items()}

    def _of(self, svc):
        return self.subs.get(svc, self.root)

    def client_cls(self, svc, asyncio_=False):
        return self._of(svc).client_cls(svc, asyncio_)

    def sync(self, svc, clock=None):
        return self._of(svc).sync(svc, clock)

    def aio(self, svc, clock=None):
        return self._of(svc).aio(svc, clock)

    def type_of(self, full, tp):
        return self.root.type_of(full, tp)


def main(p):
    a = p.args
    out = dict(calls=0, combos=0, failures=[], nontrivial=[], outcomes={}, samples=[])
    if a.get('debug_logging'):
        # client logging at DEBUG: every call also passes through the transports' logging interceptors
        import logging
        logging.getLogger().setLevel(logging.DEBUG)
        logging.getLogger().addHandler(logging.NullHandler())
    try:
        lib = MultiLib(a['package'], a.get('svc_package') or {})
    except BaseException as e:
        out['import_error'] = probelib.exc_info(e)
        return out
    tp = a['proto_package']
    SVC_PROTO = a.get('svc_proto_package') or {}

    def fail(cell, client, form, val, reply, kind, detail):
        if len(out['failures']) < 400:
            out['failures'].append(dict(cell=cell['id'], client=client, form=form, val=val, reply=reply, kind=kind,
                                        detail=str(detail)[:400]))
        out['outcomes'][kind] = out['outcomes'].get(kind, 0) + 1

    def req_arg(cell, dyn, form):
        """The caller's request in the given form."""
        full = cell['req'].lstrip('.')
        gen_cls = lib.type_of(full, tp)
        plus = (a.get('plus') or {}).get(full.rsplit('.', 1)[0])
        if gen_cls is None and plus:     # type of a dependency package that is itself a proto-plus library
            gen_cls = getattr(importlib.import_module(plus), full.rsplit('.', 1)[1])
        if form == 'dict':
            return probelib.native(dyn, py_names=gen_cls is not None)
        if gen_cls is not None:
            return gen_cls(probelib.native(dyn))
        # pb2 request type of a dependency package
        mod = importlib.import_module(p.pool.FindMessageTypeByName(full).file.name[:-6].replace('/', '.') + '_pb2')
        return getattr(mod, full.split('.')[-1]).FromString(dyn.SerializeToString())

    def check_call(cell, client, form, val, rlabel, log, exp_reqs, ret, exp_reply, Dreq, Dresp):
        if len(log) != 1:
            return fail(cell, client, form, val, rlabel, 'call-count', f'{len(log)} calls on the channel')
        e = log[0]
        if e['kind'] != cell['arity']:
            fail(cell, client, form, val, rlabel, 'arity', f'{e["kind"]} != {cell["arity"]}')
        exp_path = f'/{SVC_PROTO.get(cell["service"], tp)}.{cell["service"]}/{cell["rpc"]}'
        if e['path'] != exp_path:
            fail(cell, client, form, val, rlabel, 'path', f'{e["path"]} != {exp_path}')
        raws = e['raw'] if isinstance(e['raw'], list) else [e['raw']]
        try:
            got = [Dreq.FromString(r) for r in raws]
        except Exception as ex:
            return fail(cell, client, form, val, rlabel, 'request-undecodable', ex)
        if got != exp_reqs:
            fail(cell, client, form, val, rlabel, 'request-mismatch',
                 f'sent {[probelib.short(g) for g in got]} expected {[probelib.short(g) for g in exp_reqs]}')
        # reply
        if VOID(cell):
            # "None for Empty" -- also taken to cover a streamed Empty (the stream carries no information)
            if ret is not None:
                fail(cell, client, form, val, rlabel, 'void-not-none', repr(ret)[:100])
        elif cell['arity'].endswith('_stream'):
            try:
                got_items = [Dresp.FromString(probelib.wire_of(x)) for x in ret]
            except Exception as ex:
                return fail(cell, client, form, val, rlabel, 'reply-undecodable', ex)
            if got_items != exp_reply:
                fail(cell, client, form, val, rlabel, 'reply-mismatch',
                     f'got {[probelib.short(g) for g in got_items]} expected {[probelib.short(g) for g in exp_reply]}')
        elif cell['resp'] == '.google.protobuf.Empty':
            if ret is not None:
                fail(cell, client, form, val, rlabel, 'void-not-none', repr(ret)[:100])
        else:
            if hasattr(ret, 'pages') and hasattr(ret, '_response'):
                ret = ret._response      # a pager: the reply it wraps (iteration is C07's subject)
            try:
                g = Dresp.FromString(probelib.wire_of(ret))
            except Exception as ex:
                return fail(cell, client, form, val, rlabel, 'reply-undecodable', f'{type(ret).__name__}: {ex}')
            if g != exp_reply:
                fail(cell, client, form, val, rlabel, 'reply-mismatch',
                     f'got {probelib.short(g)} expected {probelib.short(exp_reply)}')
        out['outcomes']['ok-call'] = out['outcomes'].get('ok-call', 0) + 1

    def combos(cell):
        Dreq, Dresp = p.cls(cell['req']), p.cls(cell['resp'])
        vals = list(probelib.valuations(Dreq, depth=2, seed=a.get('seed', 0), max_variants=1))
        replies = [('default', Dresp())]
        if Dresp.DESCRIPTOR.fields:
            replies.append(('populated', probelib.fill_all(Dresp(), 2, a.get('seed', 0))))
        streaming_req = cell['arity'].startswith('stream_')
        streaming_resp = cell['arity'].endswith('_stream')
        if streaming_resp:
            full = replies[-1][1]
            reply_scripts = [('s0', []), ('s1', [full]), ('s2', [full, Dresp()])]
        else:
            reply_scripts = replies
        if streaming_req:
            allv = [v for _, v in vals]
            req_forms = [('iter0', 'empty', []), ('iter1', 'all', [allv[-1]]), ('iter2', 'all+empty', [allv[-1], allv[0]])]
            req_forms += [('iter1', lbl, [v]) for lbl, v in vals[1:-1]]
        else:
            req_forms = []
            for lbl, v in vals:
                req_forms.append(('message', lbl, [v]))
                req_forms.append(('dict', lbl, [v]))
            req_forms.append(('omitted', 'empty', [Dreq()]))
        for form, vlabel, reqs in req_forms:
            for rlabel, reply in reply_scripts:
                yield form, vlabel, reqs, rlabel, reply, Dreq, Dresp

    def build_args(cell, form, reqs):
        if form == 'omitted':
            return {}
        if form.startswith('iter'):
            f = 'dict' if form.endswith('dict') else 'message'
            return dict(requests=iter([req_arg(cell, r, f) for r in reqs]))
        return dict(request=req_arg(cell, reqs[0], form))

    def script_of(cell, reply):
        if isinstance(reply, list):
            return [[r.SerializeToString() for r in reply]]
        return [reply.SerializeToString()]

    # ---------------------------------------------------------------- sync
    clients = {}
    for cell in a['cells']:
        svc = cell['service']
        if svc not in clients:
            try:
                clients[svc] = lib.sync(svc)
            except BaseException as e:
                clients[svc] = e
        if isinstance(clients[svc], BaseException):
            fail(cell, 'sync', '-', '-', '-', 'client-construction', probelib.exc_info(clients[svc]))
            continue
        client, ch = clients[svc]
        meth = getattr(client, cell['py'], None)
        if meth is None:
            fail(cell, 'sync', '-', '-', '-', 'method-missing', f'{type(client).__name__}.{cell["py"]}')
            continue
        seen_forms = set()
        for form, vlabel, reqs, rlabel, reply, Dreq, Dresp in combos(cell):
            out['combos'] += 1
            ch.log.clear()
            ch.script = script_of(cell, reply)
            try:
                kwargs = build_args(cell, form, reqs)
            except BaseException as e:
                fail(cell, 'sync', form, vlabel, rlabel, 'request-construction', probelib.exc_info(e))
                continue
            try:
                ret = meth(**kwargs)
                if cell['arity'].endswith('_stream') and not VOID(cell):
                    ret = list(ret)
            except BaseException as e:
                fail(cell, 'sync', form, vlabel, rlabel, 'exception', probelib.exc_info(e))
                continue
            out['calls'] += 1
            if ch.log:
                seen_forms.add(form)
            check_call(cell, 'sync', form, vlabel, rlabel, list(ch.log), reqs, ret, reply, Dreq, Dresp)
            if len(out['samples']) < 3 and vlabel == 'all' and ch.log:
                out['samples'].append(dict(cell=cell['id'], client='sync', form=form, path=ch.log[0]['path'],
                                           kind=ch.log[0]['kind'], request=[probelib.short(r) for r in reqs],
                                           reply=rlabel))
        out['nontrivial'] += [f'{cell["id"]}|sync|{f}' for f in sorted(seen_forms)]

    # a second client instance on its own channel must use *its* channel (no state shared between transports)
    second = {}
    for cell in a['cells']:
        svc = cell['service']
        if isinstance(clients.get(svc), BaseException) or svc not in clients:
            continue
        if svc not in second:
            second[svc] = lib.sync(svc)
        c2, ch2 = second[svc]
        ch1 = clients[svc][1]
        meth = getattr(c2, cell['py'], None)
        if meth is None:
            continue
        form, vlabel, reqs, rlabel, reply, Dreq, Dresp = next(iter(combos(cell)))
        ch1.log.clear(); ch2.log.clear()
        ch1.script = script_of(cell, reply); ch2.script = script_of(cell, reply)
        try:
            ret = meth(**build_args(cell, form, reqs))
            if cell['arity'].endswith('_stream') and not VOID(cell):
                list(ret)
        except BaseException as e:
            fail(cell, 'sync', 'second-client', vlabel, rlabel, 'exception', probelib.exc_info(e))
            continue
        out['calls'] += 1
        if len(ch2.log) != 1 or ch1.log:
            fail(cell, 'sync', 'second-client', vlabel, rlabel, 'wrong-channel',
                 f'{len(ch2.log)} calls on the second client\'s channel, {len(ch1.log)} on the first client\'s')

    # ------------------------------------------------------------- asyncio
    async def amain():
        aclients = {}
        for cell in a['cells']:
            svc = cell['service']
            if svc not in aclients:
                try:
                    aclients[svc] = lib.aio(svc)
                except BaseException as e:
                    aclients[svc] = e
            if isinstance(aclients[svc], BaseException):
                fail(cell, 'asyncio', '-', '-', '-', 'client-construction', probelib.exc_info(aclients[svc]))
                continue
            client, ch = aclients[svc]
            meth = getattr(client, cell['py'], None)
            if meth is None:
                fail(cell, 'asyncio', '-', '-', '-', 'method-missing', f'{type(client).__name__}.{cell["py"]}')
                continue
            seen_forms = set()
            for form, vlabel, reqs, rlabel, reply, Dreq, Dresp in combos(cell):
                out['combos'] += 1
                ch.log.clear()
                ch.script = script_of(cell, reply)
                try:
                    kwargs = build_args(cell, form, reqs)
                except BaseException as e:
                    fail(cell, 'asyncio', form, vlabel, rlabel, 'request-construction', probelib.exc_info(e))
                    continue
                try:
                    ret = meth(**kwargs)
                    if inspect.isawaitable(ret):
                        ret = await ret
                    if cell['arity'].endswith('_stream') and not VOID(cell):
                        ret = [x async for x in ret]
                    elif inspect.isawaitable(ret):
                        ret = await ret
                    for _ in range(3):   # let a started-but-unawaited call run (void client streaming)
                        await asyncio.sleep(0)
                except BaseException as e:
                    fail(cell, 'asyncio', form, vlabel, rlabel, 'exception', probelib.exc_info(e))
                    continue
                out['calls'] += 1
                if ch.log:
                    seen_forms.add(form)
                check_call(cell, 'asyncio', form, vlabel, rlabel, list(ch.log), reqs, ret, reply, Dreq, Dresp)
            out['nontrivial'] += [f'{cell["id"]}|asyncio|{f}' for f in sorted(seen_forms)]
        second = {}
        for cell in a['cells']:
            svc = cell['service']
            if isinstance(aclients.get(svc), BaseException) or svc not in aclients:
                continue
            if svc not in second:
                second[svc] = lib.aio(svc)
            c2, ch2 = second[svc]
            ch1 = aclients[svc][1]
            meth = getattr(c2, cell['py'], None)
            if meth is None:
                continue
            form, vlabel, reqs, rlabel, reply, Dreq, Dresp = next(iter(combos(cell)))
            ch1.log.clear(); ch2.log.clear()
            ch1.script = script_of(cell, reply); ch2.script = script_of(cell, reply)
            try:
                ret = meth(**build_args(cell, form, reqs))
                if inspect.isawaitable(ret):
                    ret = await ret
                if cell['arity'].endswith('_stream') and not VOID(cell):
                    [x async for x in ret]
                elif inspect.isawaitable(ret):
                    await ret
                for _ in range(3):
                    await asyncio.sleep(0)
            except BaseException as e:
                fail(cell, 'asyncio', 'second-client', vlabel, rlabel, 'exception', probelib.exc_info(e))
                continue
            out['calls'] += 1
            if VOID(cell) and cell['arity'].endswith('_stream'):
                continue   # D22: nothing is sent at all
            if len(ch2.log) != 1 or ch1.log:
                fail(cell, 'asyncio', 'second-client', vlabel, rlabel, 'wrong-channel',
                     f'{len(ch2.log)} calls on the second client\'s channel, {len(ch1.log)} on the first client\'s')

    asyncio.run(amain())
    if not a.get('no_conformance'):
        conformance(p, a, lib, out, combos, build_args, VOID)
    return out


def conformance(p, a, lib, out, combos, build_args, VOID):
    """Seam conformance (DESIGN 4.2): the same representative call of every cell through a real grpc.server on
    loopback TCP; what the server saw must equal what the fake channel recorded.  A difference is a harness
    (seam-fidelity) problem, never a property violation."""
    import concurrent.futures
    import grpc
    from google.auth.credentials import AnonymousCredentials
    tp = a['proto_package']
    SVC_PROTO = a.get('svc_proto_package') or {}
    arity = {f'/{SVC_PROTO.get(c["service"], tp)}.{c["service"]}/{c["rpc"]}': c['arity'] for c in a['cells']}
    seen = []
    replies = {}

    class Handler(grpc.GenericRpcHandler):
        def service(self, details):
            kind = arity.get(details.method)
            if kind is None:
                return None
            md = [(k, v) for k, v in details.invocation_metadata if k == 'x-goog-request-params']

            def uu(req, ctx):
                seen.append((details.method, [req], md))
                return replies[details.method][0]

            def us(req, ctx):
                seen.append((details.method, [req], md))
                yield from replies[details.method]

            def su(it, ctx):
                seen.append((details.method, list(it), md))
                return replies[details.method][0]

            def ss(it, ctx):
                seen.append((details.method, list(it), md))
                yield from replies[details.method]
            return {'unary_unary': grpc.unary_unary_rpc_method_handler(uu), 'unary_stream': grpc.unary_stream_rpc_method_handler(us),
                    'stream_unary': grpc.stream_unary_rpc_method_handler(su), 'stream_stream': grpc.stream_stream_rpc_method_handler(ss)}[kind]

    out['conformance'] = dict(calls=0, mismatches=[], skipped=None)
    try:
        server = grpc.server(concurrent.futures.ThreadPoolExecutor(max_workers=4))
        server.add_generic_rpc_handlers((Handler(),))
        port = server.add_insecure_port('127.0.0.1:0')
        server.start()
    except BaseException as e:
        out['conformance']['skipped'] = f'no loopback socket: {type(e).__name__}: {e}'
        return
    try:
        chan = grpc.insecure_channel(f'127.0.0.1:{port}')
        clients = {}
        for cell in a['cells']:
            svc = cell['service']
            C = lib.client_cls(svc)
            if svc not in clients:
                try:
                    clients[svc] = (C(transport=C.get_transport_class('grpc')(channel=chan, credentials=AnonymousCredentials())),) + lib.sync(svc)
                except BaseException as e:
                    clients[svc] = None
                    out['conformance']['mismatches'].append(dict(cell=cell['id'], what=f'client construction failed: {type(e).__name__}: {str(e)[:200]}'))
            if clients[svc] is None:
                continue
            real, fake, fch = clients[svc]
            form, vlabel, reqs, rlabel, reply, Dreq, Dresp = [x for x in combos(cell)][-1]
            raw = [r.SerializeToString() for r in reply] if isinstance(reply, list) else [reply.SerializeToString()]
            path = f'/{SVC_PROTO.get(svc, tp)}.{svc}/{cell["rpc"]}'
            replies[path] = raw
            del seen[:]
            fch.log.clear()
            fch.script = [raw] if isinstance(reply, list) else [raw[0]]
            try:
                for client in (real, fake):
                    ret = getattr(client, cell['py'])(**build_args(cell, form, reqs))
                    if cell['arity'].endswith('_stream') and not VOID(cell):
                        list(ret)
            except BaseException as e:
                out['conformance']['mismatches'].append(dict(cell=cell['id'], what=f'call failed: {type(e).__name__}: {str(e)[:200]}'))
                continue
            out['conformance']['calls'] += 1
            if len(seen) != 1 or len(fch.log) != 1:
                out['conformance']['mismatches'].append(dict(cell=cell['id'], what=f'server saw {len(seen)} calls, fake {len(fch.log)}'))
                continue
            m, sreqs, smd = seen[0]
            e = fch.log[0]
            fraw = e['raw'] if isinstance(e['raw'], list) else [e['raw']]
            fmd = [(k, v) for k, v in (e['metadata'] or []) if k == 'x-goog-request-params']
            if m != e['path'] or [Dreq.FromString(x) for x in sreqs] != [Dreq.FromString(x) for x in fraw] or smd != fmd:
                out['conformance']['mismatches'].append(dict(cell=cell['id'], what=f'server {m} {smd} vs fake {e["path"]} {fmd}'))

        # the asyncio client through a real grpc.aio channel to the same server
        async def arun():
            achan = grpc.aio.insecure_channel(f'127.0.0.1:{port}')
            aclients = {}
            out['conformance']['aio_calls'] = 0
            for cell in a['cells']:
                svc = cell['service']
                if VOID(cell) and cell['arity'].endswith('_stream'):
                    continue   # D22: nothing is sent at all
                C, A = lib.client_cls(svc), lib.client_cls(svc, True)
                if svc not in aclients:
                    try:
                        aclients[svc] = (A(transport=C.get_transport_class('grpc_asyncio')(channel=achan, credentials=AnonymousCredentials())),) + lib.aio(svc)
                    except BaseException as e:
                        aclients[svc] = None
                        out['conformance']['mismatches'].append(dict(cell=cell['id'], what=f'aio client construction failed: {type(e).__name__}: {str(e)[:200]}'))
                if aclients[svc] is None:
                    continue
                real, fake, fch = aclients[svc]
                form, vlabel, reqs, rlabel, reply, Dreq, Dresp = [x for x in combos(cell)][-1]
                raw = [r.SerializeToString() for r in reply] if isinstance(reply, list) else [reply.SerializeToString()]
                path = f'/{SVC_PROTO.get(svc, tp)}.{svc}/{cell["rpc"]}'
                replies[path] = raw
                del seen[:]
                fch.log.clear()
                fch.script = [raw] if isinstance(reply, list) else [raw[0]]
                try:
                    for client in (real, fake):
                        ret = getattr(client, cell['py'])(**build_args(cell, form, reqs))
                        if inspect.isawaitable(ret):
                            ret = await ret
                        if cell['arity'].endswith('_stream') and not VOID(cell):
                            [x async for x in ret]
                        elif inspect.isawaitable(ret):
                            await ret
                        for _ in range(3):
                            await asyncio.sleep(0)
                        if client is real and VOID(cell):
                            # a void client-streaming method returns once connected; the call itself finishes in the
                            # background (real time on a real channel): wait for the server to have read it
                            for _ in range(4000):
                                if seen:
                                    break
                                await asyncio.sleep(0.005)
                except BaseException as e:
                    out['conformance']['mismatches'].append(dict(cell=cell['id'], what=f'aio call failed: {type(e).__name__}: {str(e)[:200]}'))
                    continue
                out['conformance']['aio_calls'] += 1
                if len(seen) != 1 or len(fch.log) != 1:
                    out['conformance']['mismatches'].append(dict(cell=cell['id'], what=f'aio: server saw {len(seen)} calls, fake {len(fch.log)}'))
                    continue
                m, sreqs, smd = seen[0]
                e = fch.log[0]
                fraw = e['raw'] if isinstance(e['raw'], list) else [e['raw']]
                fmd = [(k, v) for k, v in (e['metadata'] or []) if k == 'x-goog-request-params']
                if m != e['path'] or [Dreq.FromString(x) for x in sreqs] != [Dreq.FromString(x) for x in fraw] or smd != fmd:
                    out['conformance']['mismatches'].append(dict(cell=cell['id'], what=f'aio: server {m} {smd} vs fake {e["path"]} {fmd}'))
            await achan.close()
        asyncio.run(arun())
    finally:
        server.stop(0)


if __name__ == '__main__':
    probelib.run(main)
