"""C20(b2) probe: comments attached to API elements must reach the docstrings word for word."""
import inspect

from mc import probelib
from mc.ref import names


def subsequence(words, hay):
    i = 0
    for w in hay:
        if i < len(words) and (w == words[i] or w.rstrip('.') == words[i]):
            i += 1
    return i == len(words)


def entry_section(doc, name):
    """Words of the entry `name (...):` of an Attributes: / Values: list, or None when there is no such entry."""
    import re
    lines = (doc or '').split('\n')
    for i, l in enumerate(lines):
        m = re.match(r'^(\s*)' + re.escape(name) + r'_? \(.*\):\s*$', l)
        if m:
            ind = len(m.group(1))
            body = []
            for l2 in lines[i + 1:]:
                if l2.strip() and len(l2) - len(l2.lstrip()) <= ind:
                    break
                body.append(l2)
            return ' '.join(body).split()
    return None


def main(p):
    a = p.args
    out = dict(checked=0, failures=[], samples=[])
    try:
        lib = probelib.Lib(a['package'])
    except BaseException as e:
        return dict(import_error=probelib.exc_info(e))
    tp = a['proto_package']
    comments = a['comments']       # full name -> text
    kinds = a['kinds']             # full name -> kind
    places = a.get('places') or {}
    for full, text in comments.items():
        kind = kinds[full]
        if kind == 'dep-message':
            continue        # not emitted as a class; judged where a method docstring quotes it
        words = text.split()
        doc = None
        try:
            if kind in ('message', 'enum'):
                doc = lib.type_of('.' + full, tp).__doc__
            elif kind == 'field':
                owner, fname = full.rsplit('.', 1)
                doc = lib.type_of('.' + owner, tp).__doc__
            elif kind == 'enum_value':
                owner, vname = full.rsplit('.', 1)
                doc = lib.type_of('.' + owner, tp).__doc__
            elif kind == 'service':
                doc = lib.client_cls(full.rsplit('.', 1)[1]).__doc__
            elif kind == 'method':
                svc, m = full.rsplit('.', 2)[1:]
                doc = getattr(lib.client_cls(svc), names.py_method(m)).__doc__
        except BaseException as e:
            out['failures'].append(dict(element=full, kind=kind, place=places.get(full, 'leading'), what=f'lookup failed: {type(e).__name__}: {e}', text=text))
            continue
        out['checked'] += 1
        if not doc or not subsequence(words, doc.split()):
            out['failures'].append(dict(element=full, kind=kind, place=places.get(full, 'leading'), what='comment words missing from the docstring', text=text,
                                        doc=(doc or '')[:300]))
        elif len(out['samples']) < 2:
            out['samples'].append(dict(element=full, kind=kind, comment=text))
        # ... and sit under the entry of the element they were written for
        if kind in ('field', 'enum_value') and doc:
            sec = entry_section(doc, full.rsplit('.', 1)[1])
            if sec is not None:
                out['checked'] += 1
                if not subsequence(words, sec):
                    out['failures'].append(dict(element=full, kind=kind + '-entry', place=places.get(full, 'leading'),
                                                what='the comment is not under the entry of its own element', text=text,
                                                doc=' '.join(sec)[:300]))
        # a method's docstring also describes its request ("The request object. <comment>") and what it returns
        if kind == 'method':
            svc, m = full.rsplit('.', 2)[1:]
            md = None
            for pf in p.req.proto_file:
                if pf.package == tp:
                    for s_ in pf.service:
                        if s_.name == svc:
                            md = next((x for x in s_.method if x.name == m), md)
            if md is not None:
                for role, tname in (('request', md.input_type), ('response', md.output_type)):
                    t = comments.get(tname.lstrip('.'))
                    if t is None or tname in ('.google.protobuf.Empty', '.google.longrunning.Operation') or md.client_streaming:
                        continue
                    out['checked'] += 1
                    for cname, d_ in (('', doc), ('async-', None)):
                        if cname:
                            try:
                                d_ = getattr(lib.client_cls(svc, True), names.py_method(m)).__doc__
                            except AttributeError:
                                continue
                        if not d_ or not subsequence(t.split(), d_.split()):
                            out['failures'].append(dict(element=full, kind=f'{cname}method-{role}-doc', place=places.get(tname.lstrip('.'), 'leading'),
                                                        what=f'the comment of the {role} message {tname} is missing from the method docstring',
                                                        text=t, doc=(d_ or '')[:300]))
        # the asyncio client carries the same comments
        adoc = None
        try:
            if kind == 'service':
                adoc = lib.client_cls(full.rsplit('.', 1)[1], True).__doc__
            elif kind == 'method':
                svc, m = full.rsplit('.', 2)[1:]
                adoc = getattr(lib.client_cls(svc, True), names.py_method(m)).__doc__
        except AttributeError:
            continue
        if kind in ('service', 'method'):
            out['checked'] += 1
            if not adoc or not subsequence(words, adoc.split()):
                out['failures'].append(dict(element=full, kind='async-' + kind, place=places.get(full, 'leading'),
                                            what='comment words missing from the asyncio client docstring', text=text, doc=(adoc or '')[:300]))
    return out


if __name__ == '__main__':
    probelib.run(main)
