"""C01 probe: compile every emitted .py, parse every .json, import the package
and all of its sub-modules, and report the clients and their transports."""
import importlib
import json
import os
import sys

from mc import probelib

SKIP_IMPORT_TOP = ('tests', 'samples', 'docs', 'scripts', 'testing')


def main(p):
    root = os.getcwd()
    out = dict(compile_errors=[], json_errors=[], import_errors=[], clients=[], exports={}, n_py=0,
               n_json=0, n_imported=0)
    modules = []
    for dp, dn, fn in os.walk(root):
        dn.sort()
        for f in sorted(fn):
            full = os.path.join(dp, f)
            rel = os.path.relpath(full, root)
            if rel.startswith('_probe') or rel == '_request.bin':
                continue
            if f.endswith('.py'):
                out['n_py'] += 1
                try:
                    with open(full, encoding='utf8') as fh:
                        compile(fh.read(), rel, 'exec', dont_inherit=True)
                except (SyntaxError, ValueError) as e:
                    out['compile_errors'].append(dict(file=rel, etype=type(e).__name__, emsg=str(e)[:300]))
                    continue
                parts = rel[:-3].split(os.sep)
                if parts[0] in SKIP_IMPORT_TOP or len(parts) == 1:
                    continue   # setup.py / noxfile.py / tests are compiled only
                if parts[-1] == '__init__':
                    parts = parts[:-1]
                if all(x.isidentifier() for x in parts):
                    modules.append('.'.join(parts))
            elif f.endswith('.json'):
                out['n_json'] += 1
                try:
                    with open(full, encoding='utf8') as fh:
                        json.load(fh)
                except ValueError as e:
                    out['json_errors'].append(dict(file=rel, emsg=str(e)[:300]))
    for m in sorted(modules, key=lambda s: (s.count('.'), s)):
        try:
            mod = importlib.import_module(m)
            out['n_imported'] += 1
        except BaseException as e:
            info = probelib.exc_info(e)
            info['module'] = m
            out['import_errors'].append(info)
            continue
        if hasattr(mod, '__all__') and mod.__file__.endswith('__init__.py'):
            out['exports'][m] = sorted(mod.__all__)
        segs = m.split('.')
        if len(segs) >= 2 and segs[-2] == 'services' and mod.__file__.endswith('__init__.py'):
            for name in sorted(vars(mod)):
                obj = getattr(mod, name)
                if not isinstance(obj, type) or not name.endswith('Client'):
                    continue
                is_async = name.endswith('AsyncClient')
                gtc = getattr(obj, 'get_transport_class', None)
                if not callable(gtc):
                    continue
                # which transports does the client offer?  Ask its public get_transport_class(label) for every known label
                # (the registry attribute is an implementation detail and only used as a cross-check when present).
                registry = {}
                for label in ('grpc', 'grpc_asyncio', 'rest', 'rest_asyncio'):
                    try:
                        registry[label] = gtc(label).__name__
                    except Exception:
                        pass
                reg_attr = getattr(type(obj), '_transport_registry', None)
                if reg_attr is not None and not is_async:
                    for k, v in reg_attr.items():
                        registry.setdefault(k, v.__name__)
                try:
                    default = gtc().__name__
                except Exception as e:
                    default = f'!{type(e).__name__}'
                out['clients'].append(dict(module=m, name=name, registry=None if is_async else registry, default=default,
                                           exported=name in getattr(mod, '__all__', ())))
    return out


if __name__ == '__main__':
    probelib.run(main)
