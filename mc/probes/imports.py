"""C01 probe: compile every emitted .py, parse every .json, import the package
and all of its sub-modules, and report the clients and their transports."""
import importlib
import json
import os
import sys

from mc import probelib

SKIP_IMPORT_TOP = ('tests', 'samples', 'docs', 'scripts', 'testing')


def _norm(n):
    import re
    return re.sub(r'[-_.]+', '-', n).lower()


def undeclared_dependencies(root, lib_files):
    """Distributions that own a module the emitted library imports, minus the transitive closure of the requirements the
    emitted setup.py declares.  -> (list of (distribution, module), note) ; None when there is no setup.py to judge."""
    import ast
    import glob
    import importlib.metadata as md
    import importlib.util
    import sysconfig
    from packaging.requirements import Requirement
    setup = os.path.join(root, 'setup.py')
    if not os.path.exists(setup):
        return None
    declared = []
    for node in ast.walk(ast.parse(open(setup, encoding='utf8').read())):
        if isinstance(node, ast.Assign) and len(node.targets) == 1 and getattr(node.targets[0], 'id', None) == 'dependencies' \
                and isinstance(node.value, ast.List):
            declared = [e.value for e in node.value.elts if isinstance(e, ast.Constant) and isinstance(e.value, str)]
    # modules imported by the library sources
    mods = set()
    for full in lib_files:
        try:
            tree = ast.parse(open(full, encoding='utf8').read())
        except SyntaxError:
            continue
        for node in ast.walk(tree):
            if isinstance(node, ast.Import):
                mods.update(a.name for a in node.names)
            elif isinstance(node, ast.ImportFrom) and node.level == 0 and node.module:
                mods.add(node.module)
                mods.update(f'{node.module}.{a.name}' for a in node.names)
    sp = sysconfig.get_paths()['purelib']
    records = None
    needed = {}
    for m in sorted(mods):
        try:
            spec = importlib.util.find_spec(m)
        except (ImportError, ValueError, AttributeError):
            continue
        origin = getattr(spec, 'origin', None)
        if not origin or not origin.startswith(sp + os.sep):
            continue        # standard library, the emitted tree itself, synthesized dependency modules
        rel = os.path.relpath(origin, sp)
        if records is None:
            records = []
            for rec in glob.glob(os.path.join(sp, '*.dist-info', 'RECORD')):
                name = os.path.basename(os.path.dirname(rec)).rsplit('-', 1)[0]
                try:
                    for l in open(os.path.join(os.path.dirname(rec), 'METADATA'), encoding='utf8'):
                        if l.startswith('Name:'):
                            name = l.split(':', 1)[1].strip()
                            break
                except OSError:
                    pass
                records.append((_norm(name), '\n' + open(rec, encoding='utf8').read()))
        for name, text in records:
            if f'\n{rel},' in text:
                needed.setdefault(name, m)
                break
    # transitive closure of the declared requirements
    closure, todo = set(), []
    for d in declared:
        try:
            r = Requirement(d)
        except Exception:
            continue
        if r.marker is None or r.marker.evaluate({'extra': ''}):
            todo.append((_norm(r.name), frozenset(r.extras)))
    while todo:
        name, extras = todo.pop()
        if (name, extras) in closure:
            continue
        closure.add((name, extras))
        try:
            reqs = md.requires(name) or []
        except md.PackageNotFoundError:
            continue
        for q in reqs:
            try:
                r = Requirement(q)
            except Exception:
                continue
            if r.marker is None or any(r.marker.evaluate({'extra': e}) for e in (extras or {''}) | {''}):
                todo.append((_norm(r.name), frozenset(r.extras)))
    have = {n for n, _ in closure}
    return sorted((n, m) for n, m in needed.items() if n not in have)


def main(p):
    root = os.getcwd()
    out = dict(compile_errors=[], json_errors=[], import_errors=[], clients=[], exports={}, n_py=0,
               n_json=0, n_imported=0)
    modules = []
    lib_files = []
    for dp, dn, fn in os.walk(root):
        dn.sort()
        for f in sorted(fn):
            full = os.path.join(dp, f)
            rel = os.path.relpath(full, root)
            if rel.startswith('_probe') or rel == '_request.bin':
                continue
            if f.endswith('.py'):
                out['n_py'] += 1
                try:
                    with open(full, encoding='utf8') as fh:
                        compile(fh.read(), rel, 'exec', dont_inherit=True)
                except (SyntaxError, ValueError) as e:
                    out['compile_errors'].append(dict(file=rel, etype=type(e).__name__, emsg=str(e)[:300]))
                    continue
                parts = rel[:-3].split(os.sep)
                if parts[0] in SKIP_IMPORT_TOP or len(parts) == 1:
                    continue   # setup.py / noxfile.py / tests are compiled only
                lib_files.append(full)
                if parts[-1] == '__init__':
                    parts = parts[:-1]
                if all(x.isidentifier() for x in parts):
                    modules.append('.'.join(parts))
            elif f.endswith('.json'):
                out['n_json'] += 1
                try:
                    with open(full, encoding='utf8') as fh:
                        json.load(fh)
                except ValueError as e:
                    out['json_errors'].append(dict(file=rel, emsg=str(e)[:300]))
    for m in sorted(modules, key=lambda s: (s.count('.'), s)):
        try:
            mod = importlib.import_module(m)
            out['n_imported'] += 1
        except BaseException as e:
            info = probelib.exc_info(e)
            info['module'] = m
            out['import_errors'].append(info)
            continue
        if hasattr(mod, '__all__') and mod.__file__.endswith('__init__.py'):
            out['exports'][m] = sorted(mod.__all__)
        segs = m.split('.')
        if len(segs) >= 2 and segs[-2] == 'services' and mod.__file__.endswith('__init__.py'):
            for name in sorted(vars(mod)):
                obj = getattr(mod, name)
                if not isinstance(obj, type) or not name.endswith('Client'):
                    continue
                is_async = name.endswith('AsyncClient')
                gtc = getattr(obj, 'get_transport_class', None)
                if not callable(gtc):
                    continue
                # which transports does the client offer?  Ask its public get_transport_class(label) for every known label
                # (the registry attribute is an implementation detail and only used as a cross-check when present).
                registry = {}
                for label in ('grpc', 'grpc_asyncio', 'rest', 'rest_asyncio'):
                    try:
                        registry[label] = gtc(label).__name__
                    except Exception:
                        pass
                reg_attr = getattr(type(obj), '_transport_registry', None)
                if reg_attr is not None and not is_async:
                    for k, v in reg_attr.items():
                        registry.setdefault(k, v.__name__)
                try:
                    default = gtc().__name__
                except Exception as e:
                    default = f'!{type(e).__name__}'
                out['clients'].append(dict(module=m, name=name, registry=None if is_async else registry, default=default,
                                           exported=name in getattr(mod, '__all__', ())))
    try:
        out['undeclared_dependencies'] = undeclared_dependencies(root, lib_files)
    except BaseException as e:     # the judgement is skipped, never guessed
        out['undeclared_dependencies'] = None
        out['dependency_check_error'] = repr(e)[:300]
    return out


if __name__ == '__main__':
    probelib.run(main)
