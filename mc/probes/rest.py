"""C04 probe: drive REST cells through the HTTP seam; invert what the server saw."""
import itertools
import re
import json

from google.api import annotations_pb2, field_behavior_pb2
from google.protobuf import json_format

from mc import probelib, seams
from mc.probelib import FD
from mc.ref import http, routing

STAR_PALETTE = ['x1', 'a b', 'ü', 'a+b&c=d']
STAR_PALETTE_THOROUGH = ['q?r', 'h#i', 'p%q', 'line\tfeed']


def main(p):
    a = p.args
    out = dict(calls=0, traffic=0, valuations=0, failures=[], nontrivial=[], outcomes={}, samples=[])
    try:
        lib = probelib.Lib(a['package'])
        seam = seams.HttpSeam().install()
        client = lib.rest('Rest')
    except BaseException as e:
        out['import_error'] = probelib.exc_info(e)
        return out
    tp = a['proto_package']
    numeric = a['numeric']
    if a.get('debug_logging'):
        import logging
        logging.getLogger().setLevel(logging.DEBUG)
        logging.getLogger().addHandler(logging.NullHandler())
    rules = {}
    for f in p.req.proto_file:
        if f.name in p.req.file_to_generate:
            for s in f.service:
                for m in s.method:
                    rules[m.name] = m.options.Extensions[annotations_pb2.http]
    Resp = p.cls(f'.{tp}.Resp')
    reply = Resp(ok=True, kind=1, big=2 ** 53 + 1, note_text='n')
    it = reply.items.add()
    it.x, it.kind = 1, 2
    # the server is one release ahead of the client: its replies carry members (top-level and nested) that the response type the
    # library was generated from does not declare; they are not part of the declared type and decode to nothing
    def newer(js):
        d = json.loads(js)
        d['futureField'] = {'a': [1, 'x'], 'b': None}
        d['futureScalar'] = 7
        for it_ in d.get('items', []):
            it_['futureNested'] = 'v'
        return json.dumps(d)
    reply_json = newer(json_format.MessageToJson(reply, use_integers_for_enums=numeric)).encode()
    stream_json = ('[' + newer(json_format.MessageToJson(reply, use_integers_for_enums=numeric)) + ',' +
                   newer(json_format.MessageToJson(Resp(ok=False), use_integers_for_enums=numeric)) + ']').encode()

    def fail(cell, val, kind, detail, sub=''):
        cause = None
        m = re.match(r'path#(\d+)', val)
        if m and int(m.group(1)) >= len(STAR_PALETTE) and a.get('thorough'):
            # thorough palette: path-variable values containing URL-significant characters (DESIGN 9/D14)
            ch = STAR_PALETTE_THOROUGH[int(m.group(1)) - len(STAR_PALETTE)]
            cause = 'path-value-containing:' + {'q?r': 'question-mark', 'h#i': 'hash', 'p%q': 'percent', 'line\tfeed': 'tab'}[ch]
        if len(out['failures']) < 3000:
            out['failures'].append(dict(cell=cell['id'], val=val, kind=kind, detail=str(detail)[:500], sub=sub, cause=cause))
        out['outcomes'][kind] = out['outcomes'].get(kind, 0) + 1

    def set_var(msg, var, sub, k):
        """Set path variable `var` from palette entry k; False when exhausted."""
        cur = msg
        parts = var.split('.')
        for q in parts[:-1]:
            cur = getattr(cur, q)
        fd = cur.DESCRIPTOR.fields_by_name[parts[-1]]
        if fd.type == FD.TYPE_STRING:
            pal = STAR_PALETTE + (STAR_PALETTE_THOROUGH if a.get('thorough') else [])
            if k >= len(pal):
                return False
            _, toks = routing.parse_template('{x=' + sub + '}')
            setattr(cur, fd.name, routing.instantiate(toks, star=pal[k], dstar=pal[k] + '/more'))
        elif fd.type == FD.TYPE_BOOL:
            if k > 1:
                return False
            setattr(cur, fd.name, k == 0)
        else:
            lo, hi = probelib.INT_RANGES[fd.type]
            pal = [7, hi] + ([-3] if lo < 0 else [])
            if k >= len(pal):
                return False
            setattr(cur, fd.name, pal[k])
        return True

    def valuations(cell, Dreq, bindings):
        prim_vars = http.variables(bindings[0][1]) if bindings else []
        roots = {v.split('.')[0] for v, _ in prim_vars}
        others = [fd for fd in Dreq.DESCRIPTOR.fields if fd.name not in roots]
        k = 0
        while True:
            base = Dreq()
            ok = all(set_var(base, v, sub, k) for v, sub in prim_vars)
            if not ok or (k > 0 and not prim_vars):
                break
            yield f'path#{k}', base
            full = Dreq()
            full.CopyFrom(base)
            for fd in others:
                probelib.set_field(full, fd, 1 if fd.type == FD.TYPE_MESSAGE and fd.label != FD.LABEL_REPEATED and not probelib.is_map(fd) else 0, 2, a.get('seed', 0))
            for v, _ in prim_vars:     # fill the siblings of dotted variables too
                parts = v.split('.')
                cur = full
                for q in parts[:-1]:
                    cur = getattr(cur, q)
                    for sfd in cur.DESCRIPTOR.fields:
                        if sfd.name != parts[parts.index(q) + 1] and sfd.type != FD.TYPE_MESSAGE:
                            probelib.set_field(cur, sfd, 0, 1, a.get('seed', 0))
            yield f'path#{k}+all', full
            if k == 0:
                for fd in others:
                    for variant in range(5):
                        m = Dreq()
                        m.CopyFrom(base)
                        if not probelib.set_field(m, fd, variant, 2, a.get('seed', 0)):
                            break
                        yield f'path#0+{fd.name}#{variant}', m
                if cell['kind'] in ('product', 'kit'):
                    for f1, f2 in itertools.combinations(others, 2):
                        m = Dreq()
                        m.CopyFrom(base)
                        probelib.set_field(m, f1, 0, 2, a.get('seed', 0))
                        probelib.set_field(m, f2, 0, 2, a.get('seed', 0))
                        yield f'path#0+{f1.name}+{f2.name}', m
            k += 1
        if prim_vars:
            yield 'unbound/unset', Dreq()
            m = Dreq()
            v, sub = prim_vars[0]
            cur = m
            parts = v.split('.')
            for q in parts[:-1]:
                cur = getattr(cur, q)
            if cur.DESCRIPTOR.fields_by_name[parts[-1]].type == FD.TYPE_STRING and sub != '*' and sub != '**':
                setattr(cur, parts[-1], 'wrong/shape/for/the/template')
                yield 'unbound/non-matching', m
        # the other bindings, when declared
        for bi, (bverb, uri, bbody) in enumerate(bindings[1:], 1):
            m = Dreq()
            if all(set_var(m, v, sub, 0) for v, sub in http.variables(uri)):
                yield f'binding{bi}', m
                m2 = Dreq()
                m2.CopyFrom(m)
                for fd in Dreq.DESCRIPTOR.fields:
                    if fd.name in ('q_str', 'payload', 'q_enum'):
                        probelib.set_field(m2, fd, 1 if fd.type == FD.TYPE_MESSAGE else 0, 2, 0)
                yield f'binding{bi}+some', m2

    def required_scalars(Dreq):
        out_ = []
        for fd in Dreq.DESCRIPTOR.fields:
            beh = fd.GetOptions().Extensions[field_behavior_pb2.field_behavior]
            if field_behavior_pb2.REQUIRED in beh and fd.type not in (FD.TYPE_MESSAGE, FD.TYPE_ENUM) \
                    and fd.label != FD.LABEL_REPEATED and not fd.has_presence:
                out_.append(fd)
        return out_

    conf_inputs = []   # (cell, label, request bytes, seam record) for the loopback conformance pass
    for cell in a['cells']:
        Dreq = p.cls(cell['req'])
        Gen = lib.type_of(cell['req'], tp)
        bindings = http.bindings_of(rules[cell['rpc']]) if rules[cell['rpc']].WhichOneof('pattern') else []
        meth = getattr(client, cell['py'])
        req_scalars = required_scalars(Dreq)
        n_traffic = 0
        for label, dyn in valuations(cell, Dreq, bindings) if bindings else [('none', Dreq())]:
            out['valuations'] += 1
            seam.log.clear()
            seam.script = [(200, stream_json if cell['kind'] == 'stream' else reply_json)]
            sent = Dreq()
            sent.CopyFrom(dyn)
            try:
                greq = Gen.deserialize(dyn.SerializeToString())
            except BaseException as e:
                fail(cell, label, 'request-construction', probelib.exc_info(e))
                continue
            out['calls'] += 1
            try:
                ret = meth(request=greq)
                if cell['kind'] == 'stream':
                    ret = list(ret)
            except NotImplementedError as e:
                if cell['kind'] == 'nobinding' and not seam.log:
                    out['outcomes']['ok-notimplemented'] = out['outcomes'].get('ok-notimplemented', 0) + 1
                else:
                    fail(cell, label, 'notimplemented', e)
                continue
            except ValueError as e:
                bound = http.expect_bound(sent, bindings)
                if seam.log:
                    fail(cell, label, 'valueerror-after-traffic', e)
                elif bound:
                    fail(cell, label, 'spurious-rejection', f'reference finds a matching binding, client raised ValueError: {e}')
                else:
                    out['outcomes']['ok-unbound'] = out['outcomes'].get('ok-unbound', 0) + 1
                continue
            except BaseException as e:
                info = probelib.exc_info(e)
                fail(cell, label, 'exception', info, sub=f'{info["etype"]}@{info["where"]}')
                continue
            if cell['kind'] == 'nobinding':
                fail(cell, label, 'nobinding-accepted', f'{len(seam.log)} HTTP requests sent for a method without http rule')
                continue
            if len(seam.log) != 1:
                fail(cell, label, 'http-call-count', len(seam.log))
                continue
            e = seam.log[0]
            out['traffic'] += 1
            n_traffic += 1
            if label in ('path#0+all', 'path#1', 'binding1+some') and not a.get('no_conformance'):
                conf_inputs.append((cell, label, dyn.SerializeToString(), dict(verb=e['verb'], url=e['url'], body=e['body'])))
            try:
                got, bi, qkeys = http.reconstruct(Dreq, bindings, e['verb'], e['url'], e['body'], numeric)
            except http.Mismatch as mm:
                fail(cell, label, mm.kind, f'{mm.detail} | {e["verb"]} {e["url"]} body={e["body"]!r}'[:600], sub=mm.key)
                continue
            except BaseException as ex:
                fail(cell, label, 'reconstruct-crash', f'{probelib.exc_info(ex)} | {e["verb"]} {e["url"]} body={e["body"]!r}'[:600])
                continue
            if http.normalize(got) != http.normalize(sent):
                diff = sorted(fd.name for fd in Dreq.DESCRIPTOR.fields
                              if _field_repr(got, fd) != _field_repr(sent, fd))
                fail(cell, label, 'request-mismatch', sub=','.join(diff), detail=f'server reconstructs {probelib.short(got, 250)!r} but {probelib.short(sent, 250)!r} '
                     f'was sent | {e["verb"]} {e["url"]} body={e["body"]!r}'[:900])
                continue
            # required scalars not bound to path/body must be in the query even when default
            bverb, buri, bbody = bindings[bi]
            bound_roots = {v for v, _ in http.variables(buri)}
            if bbody != '*':
                for fd in req_scalars:
                    if fd.name in bound_roots or fd.name == bbody:
                        continue
                    if fd.json_name not in qkeys:
                        fail(cell, label, 'required-default-missing', f'required {fd.name} ({fd.json_name}) absent from query {qkeys} | {e["url"]}',
                             sub=FD_TYPE_NAMES.get(fd.type, str(fd.type)))
            # reply
            try:
                if cell['kind'] == 'stream':
                    got_r = [Resp.FromString(probelib.wire_of(x)) for x in ret]
                    ok = got_r == [reply, Resp(ok=False)]
                else:
                    got_r = Resp.FromString(probelib.wire_of(ret))
                    ok = got_r == reply
                if not ok:
                    fail(cell, label, 'reply-mismatch', f'{got_r} != {reply}')
            except BaseException as ex:
                fail(cell, label, 'reply-undecodable', probelib.exc_info(ex))
            out['outcomes']['ok-call'] = out['outcomes'].get('ok-call', 0) + 1
            out['nontrivial'].append(f'{cell["id"]}|{label}')
            if len(out['samples']) < 2 and '+all' in label:
                out['samples'].append(dict(cell=cell['id'], valuation=label, verb=e['verb'], url=e['url'][:300],
                                           body=(e['body'] or b'')[:200].decode('utf8', 'replace'), binding=bindings[bi]))
        if cell['kind'] in ('product', 'kit', 'bindings', 'stream') and n_traffic == 0:
            fail(cell, '-', 'no-traffic', 'no valuation of this cell produced an HTTP request')
    conformance(lib, seam, conf_inputs, tp, reply_json, stream_json, out)
    return out


def conformance(lib, seam, inputs, tp, reply_json, stream_json, out):
    """Seam conformance (DESIGN 4.2): the same calls through a real HTTP server on loopback TCP; the request line and
    body that server reads off the socket must equal what the HTTP seam recorded.  A difference is a harness
    (seam-fidelity) problem, never a property violation."""
    import http.server
    import os
    import threading
    import urllib.parse
    out['conformance'] = dict(calls=0, mismatches=[], skipped=None)
    seen = []

    class H(http.server.BaseHTTPRequestHandler):
        protocol_version = 'HTTP/1.1'

        def _do(self):
            n = int(self.headers.get('Content-Length') or 0)
            body = self.rfile.read(n) if n else None
            seen.append(dict(verb=self.command, target=self.path, body=body))
            payload = stream_json if self.server.kind == 'stream' else reply_json
            self.send_response(200)
            self.send_header('Content-Type', 'application/json')
            self.send_header('Content-Length', str(len(payload)))
            self.end_headers()
            self.wfile.write(payload)
        do_GET = do_POST = do_PUT = do_PATCH = do_DELETE = _do

        def log_message(self, *args):
            pass

    try:
        srv = http.server.ThreadingHTTPServer(('127.0.0.1', 0), H)
    except OSError as e:
        out['conformance']['skipped'] = f'no loopback socket: {e}'
        return
    srv.kind = 'unary'
    th = threading.Thread(target=srv.serve_forever, daemon=True)
    th.start()
    seam.uninstall()
    os.environ['NO_PROXY'] = os.environ['no_proxy'] = '*'
    try:
        C = lib.client_cls('Rest')
        real = C(transport=C.get_transport_class('rest')(credentials=lib._creds(), host=f'127.0.0.1:{srv.server_address[1]}', url_scheme='http'))
        for cell, label, raw, rec in inputs:
            Gen = lib.type_of(cell['req'], tp)
            srv.kind = cell['kind']
            del seen[:]
            try:
                ret = getattr(real, cell['py'])(request=Gen.deserialize(raw))
                if cell['kind'] == 'stream':
                    list(ret)
            except BaseException as e:
                out['conformance']['mismatches'].append(dict(cell=cell['id'], val=label, what=f'call failed: {type(e).__name__}: {str(e)[:200]}'))
                continue
            out['conformance']['calls'] += 1
            u = urllib.parse.urlsplit(rec['url'])
            want = dict(verb=rec['verb'], target=u.path + ('?' + u.query if u.query else ''), body=rec['body'] or None)
            if len(seen) != 1 or seen[0] != want:
                out['conformance']['mismatches'].append(dict(cell=cell['id'], val=label, what=f'server read {seen[:2]!r}, seam recorded {want!r}'[:600]))
    finally:
        srv.shutdown()
        srv.server_close()


def _field_repr(msg, fd):
    v = getattr(msg, fd.name)
    has = msg.HasField(fd.name) if fd.has_presence else None
    return (has, str(v))


FD_TYPE_NAMES = {getattr(FD, n): n[5:].lower() for n in dir(FD) if n.startswith('TYPE_')}

if __name__ == '__main__':
    probelib.run(main)
