"""C19 probe: resource path helpers of the emitted client."""
from mc import probelib
from mc.ref import respath

PALETTE = ['a', '1x', 'ü', 'A.b', 'x-y', 'p_q', 'm~n', 'at@', 'co:lon', 'pl+us', 'pc%41', 'par(en)', 'do$', 'st*r', 'q?', 'sp ace',
           'br[ack]', 'bk\\sl', 'ca^ret', 'pi|pe', 'eq=', 'am&p', 'ha#sh']
THOROUGH_EXTRA = ['line\nfeed', 'tab\t']


def main(p):
    a = p.args
    out = dict(calls=0, valuations=0, failures=[], nontrivial=[], outcomes={}, samples=[])
    try:
        lib = probelib.Lib(a['package'])
        C = getattr(lib.pkg, p.args['client']) if p.args.get('client') else lib.client_cls('Res')
    except BaseException as e:
        out['import_error'] = probelib.exc_info(e)
        return out

    seen_fail = set()

    def fail(cell, kind, cls, detail):
        key = (kind, cls)
        if key in seen_fail:
            return
        seen_fail.add(key)
        out['failures'].append(dict(cell=cell['id'], pattern=cell['pattern'], kind=kind, cls=cls, detail=str(detail)[:400]))
        out['outcomes'][kind] = out['outcomes'].get(kind, 0) + 1

    def ok(k):
        out['outcomes'][k] = out['outcomes'].get(k, 0) + 1

    palette = PALETTE + (THOROUGH_EXTRA if a.get('thorough') else [])
    for cell in a['cells']:
        pat = cell['pattern']
        shp = respath.shape(pat)
        srcname = {0: 'msg-field', 1: 'file-def', 2: 'child-type', 3: 'type-ref', 4: 'dep-file-def', 5: 'dep-msg-ref', 6: 'lro-response', 7: 'deep-ref',
                   8: 'redeclared-common', 9: 'common', 10: 'in-resource-response', 11: 'map-value', 12: 'response-ref', 13: 'deep-child-ref'}[cell['source']]
        b = getattr(C, cell['helper'] + '_path', None)
        q = getattr(C, 'parse_' + cell['helper'] + '_path', None)
        if b is None or q is None:
            fail(cell, 'helper-missing', srcname, f'{C.__name__}.{cell["helper"]}_path / parse_{cell["helper"]}_path not offered')
            continue
        vs = respath.variables(pat)
        toks = respath.tokenize(pat)
        dstar = {t[1] for t in toks if t[0] == 'var' and t[2]}
        delims = respath.delimiters(pat)
        if pat == '*':
            out['calls'] += 2
            try:
                if b() != '*':
                    fail(cell, 'build-wrong', 'wildcard', b())
                for s in ('', 'anything/at/all', 'x'):
                    q(s)
                ok('ok-wildcard')
            except BaseException as e:
                fail(cell, 'exception', 'wildcard', probelib.exc_info(e))
            continue
        allowed = [v for v in palette if not any(ch in delims for ch in v)]
        # all variables same class + every single-variable deviation
        valuations = []
        for ci, v in enumerate(allowed):
            valuations.append((f'all:{v!r}', {n: f'{v}{k}' for k, n in enumerate(vs)}))
        base = {n: f'b{k}' for k, n in enumerate(vs)}
        for n in vs:
            for v in allowed:
                m = dict(base)
                m[n] = v
                valuations.append((f'{n}:{v!r}', m))
            if n in dstar:
                for tag, v in (('slashes', 'deep/er/path'), ('empty-inner-segment', 'a//b'), ('trailing-slash', 'dir/'),
                               ('leading-slash', '/rooted'), ('only-slash', '/')):
                    m = dict(base)
                    m[n] = v
                    valuations.append((f'{n}:{tag}', m))
        for label, vals in valuations:
            out['valuations'] += 1
            out['calls'] += 3
            cls = f'{shp}|{label.split(":", 1)[1]}'
            try:
                built = b(**vals)
            except BaseException as e:
                fail(cell, 'exception', f'build|{shp}', probelib.exc_info(e))
                continue
            exp = respath.build(pat, vals)
            if built != exp:
                fail(cell, 'build-wrong', shp, f'{cell["helper"]}_path({vals}) = {built!r}, pattern gives {exp!r}')
                continue
            try:
                parsed = q(built)
            except BaseException as e:
                fail(cell, 'exception', f'parse|{shp}', probelib.exc_info(e))
                continue
            if parsed != vals:
                rc = 'value-containing-line-feed' if any('\n' in v for v in vals.values()) else cls
                fail(cell, 'roundtrip', rc, f'parse({built!r}) = {parsed}, built from {vals}')
                continue
            try:
                if b(**parsed) != built:
                    fail(cell, 'rebuild', cls, f'build(parse({built!r})) = {b(**parsed)!r}')
                    continue
            except BaseException as e:
                fail(cell, 'exception', f'rebuild|{shp}', probelib.exc_info(e))
                continue
            ok('ok-roundtrip')
            out['nontrivial'].append(f'{pat}|{label}')
        # near misses
        good = respath.build(pat, base)
        misses = []
        lits = [t for t in toks if t[0] == 'lit' and any(c.isalpha() for c in t[1])]
        if lits:
            misses.append(('wrong-literal', good.replace('lits', 'lxts', 1)))
            misses.append(('literal-case', good.replace('lits', 'Lits', 1)))
        segs = good.split('/')
        if len(segs) > 1:
            misses.append(('missing-segment', '/'.join(segs[:-1])))
            misses.append(('missing-first-segment', '/'.join(segs[1:])))
        misses.append(('extra-segment', good + '/extra'))
        misses.append(('extra-prefix', 'pre/' + good))
        misses.append(('trailing-slash', good + '/'))
        misses.append(('empty-string', ''))
        for sep in sorted(delims - {'/'}):
            for other in '-_~.@':
                if other not in delims:
                    misses.append((f'wrong-separator:{sep}->{other}', good.replace(sep, other, 1) if sep in good else good))
                    break
        for n in vs:
            m = dict(base)
            m[n] = ''
            misses.append(('empty-variable', respath.build(pat, m)))
        for kind, s in misses:
            if respath.matches(pat, s):
                continue
            out['calls'] += 1
            try:
                r = q(s)
            except BaseException as e:
                fail(cell, 'exception', f'parse-miss|{kind}', probelib.exc_info(e))
                continue
            if r != {}:
                if kind in ('extra-segment', 'trailing-slash'):
                    where = 'last=' + shp.split('/')[-1][:1]
                elif kind in ('extra-prefix', 'missing-first-segment'):
                    where = 'first=' + shp.split('/')[0][:1]
                else:
                    where = shp
                fail(cell, 'near-miss-accepted', f'{kind}|{where}',
                     f'parse_{cell["helper"]}_path({s!r}) = {r} although the string does not match {pat!r}')
            else:
                ok('ok-near-miss')
        if len(out['samples']) < 3 and len(vs) >= 3:
            out['samples'].append(dict(pattern=pat, helper=cell['helper'], source=srcname, valuations=len(valuations),
                                       example=good, near_misses=[s for _, s in misses[:4]]))
    return out


if __name__ == '__main__':
    probelib.run(main)
