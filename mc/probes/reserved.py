"""C12 probe: drive every (position, word) cell over sync gRPC, asyncio gRPC and REST."""
import asyncio
import inspect
import json
import urllib.parse

from mc import probelib, seams
from mc.ref import names, http

HDR = 'x-goog-request-params'


def main(p):
    a = p.args
    out = dict(calls=0, failures=[], nontrivial=[], outcomes={}, samples=[])
    try:
        lib = probelib.Lib(a['package'])
        client, ch = lib.sync('Kw')
        seam = seams.HttpSeam().install()
        rclient = lib.rest('Kw')
    except BaseException as e:
        out['import_error'] = probelib.exc_info(e)
        return out
    tp = a['proto_package']

    def fail(cell, path, kind, detail):
        out['failures'].append(dict(cell=cell['id'], path=path, kind=kind, detail=str(detail)[:400]))
        out['outcomes'][kind] = out['outcomes'].get(kind, 0) + 1

    def ok(k):
        out['outcomes'][k] = out['outcomes'].get(k, 0) + 1

    aio_plans = []
    for cell in a['cells']:
        w, pos = cell['word'], cell['position']
        pw = names.py_field(w)
        Dreq = p.cls(cell['req'])
        Dresp = p.cls(cell.get('resp') or f'.{tp}.Resp')
        G = lib.type_of(cell['req'], tp)
        exp = Dreq()
        kwargs = None
        # ---- the caller's request, written with the *python* names
        try:
            if pos == 'top-field':
                setattr(exp, w, 'v1')
                req = {pw: 'v1'}
            elif pos == 'nested-field':
                setattr(exp.holder, w, 'v1')
                req = {'holder': {pw: 'v1'}}
            elif pos == 'flattened':
                setattr(exp, w, 'v1')
                req, kwargs = None, {pw: 'v1'}
            elif pos == 'flattened-dotted':
                setattr(exp.holder, w, 'v1')
                req, kwargs = None, {pw: 'v1'}
            elif pos == 'flattened-dotted-first':
                getattr(exp, w).name = 'v1'
                req, kwargs = None, {'name': 'v1'}
            elif pos == 'path-var':
                setattr(exp, w, 'items/x1')
                exp.extra = 'e'
                req = {pw: 'items/x1', 'extra': 'e'}
            elif pos == 'path-var-dotted-first':
                getattr(exp, w).name = 'items/x1'
                getattr(exp, w).other = 'o'
                req = {pw: {'name': 'items/x1', 'other': 'o'}}
            elif pos == 'path-var-dotted-last':
                setattr(exp.inner, w, 'items/x1')
                exp.inner.other = 'o'
                req = {'inner': {pw: 'items/x1', 'other': 'o'}}
            elif pos == 'body-field':
                getattr(exp, w).name = 'n1'
                exp.extra = 'e'
                req = {pw: {'name': 'n1'}, 'extra': 'e'}
            elif pos == 'routing-field':
                setattr(exp, w, 'route-me')
                req = {pw: 'route-me'}
            elif pos == 'required-query':
                setattr(exp, w, 'v1')
                exp.extra = 'e'
                req = {pw: 'v1', 'extra': 'e'}
            elif pos == 'required-query-default':
                exp.extra = 'e'
                req = {'extra': 'e'}
            elif pos in ('rpc-name', 'rpc-name-capitalised'):
                exp.name = 'n'
                req = {'name': 'n'}
            elif pos == 'file-name':
                exp.v = 'x'
                req = {'v': 'x'}
            else:   # collision
                probelib.fill_all(exp, 2, 0)
                # the caller's request as a dict written with the python field names (rejected if a field has the wrong type)
                req = probelib.native(exp) if cell.get('dict_request') else None
        except BaseException as e:
            fail(cell, '-', 'harness-request', probelib.exc_info(e))
            continue
        # ---- introspection: the python-visible name
        if pos in ('top-field', 'nested-field', 'path-var', 'path-var-dotted-first', 'path-var-dotted-last', 'body-field',
                   'routing-field', 'required-query', 'required-query-default'):
            owner = G
            if pos == 'nested-field':
                owner = lib.type_of(f'.{tp}.Holder', tp)
            if pos == 'path-var-dotted-last':
                owner = lib.type_of(cell['req'].replace('Rq', 'In'), tp)
            fields = set(owner._meta.fields)
            if pw not in fields or (w in fields and w != pw):
                fail(cell, 'introspection', 'attribute-name', f'{owner.__name__} fields {sorted(fields)[:6]}..., expected {pw!r}')
        meth = getattr(client, cell['py'], None)
        if meth is None:
            cands = [n for n in dir(client) if n.rstrip('_') == cell['py'].rstrip('_')]
            fail(cell, 'introspection', 'method-name', f'client has no method {cell["py"]!r} (similar: {cands})')
            continue
        if pos in ('flattened', 'flattened-dotted'):
            params = list(inspect.signature(meth).parameters)
            if pw not in params:
                fail(cell, 'introspection', 'parameter-name', f'{cell["py"]}{params} lacks {pw!r}')
                continue
        reply = Dresp()
        if cell.get('resp'):
            probelib.fill_all(reply, 2, 0)
        else:
            reply.ok = True
        def judge_grpc(path, log, cell=cell, w=w, pos=pos, Dreq=Dreq, exp=exp):
            e = log[0] if log else None
            if e is None or len(log) != 1:
                return fail(cell, path, 'call-count', len(log))
            exp_path = f'/{tp}.Kw/{cell["rpc"]}'
            if e['path'] != exp_path:
                fail(cell, path, 'rpc-path', f'{e["path"]} != {exp_path}')
            got = Dreq.FromString(e['raw'])
            if got != exp:
                fail(cell, path, 'request-mismatch', f'{probelib.short(got)!r} != {probelib.short(exp)!r}')
            hdr = dict((e['metadata'] or [])).get(HDR)
            if pos in ('path-var', 'path-var-dotted-first', 'path-var-dotted-last', 'routing-field'):
                key = {'path-var': w, 'path-var-dotted-first': f'{w}.name', 'path-var-dotted-last': f'inner.{w}',
                       'routing-field': w}[pos]
                val = 'route-me' if pos == 'routing-field' else 'items/x1'
                pairs = dict(urllib.parse.parse_qsl(hdr or '', keep_blank_values=True))
                if pairs != {key: val}:
                    fail(cell, path, 'routing-key', f'header {hdr!r} decodes to {pairs}, expected {{{key!r}: {val!r}}}')
            ok('ok-' + path)
            out['nontrivial'].append(cell['id'] if path == 'grpc' else f'{cell["id"]}|{path}')

        def call_args(kwargs=kwargs, req=req, G=G, exp=exp):
            if kwargs is not None:
                return dict(kwargs)
            if req is not None:
                return dict(request=dict(req))
            return dict(request=G.deserialize(exp.SerializeToString()))

        # ---- gRPC
        ch.log.clear()
        ch.script = [reply.SerializeToString()]
        try:
            meth(**call_args())
            out['calls'] += 1
            judge_grpc('grpc', list(ch.log))
        except BaseException as ex:
            fail(cell, 'grpc', 'exception', probelib.exc_info(ex))
        aio_plans.append((cell, call_args, judge_grpc, reply.SerializeToString()))
        # ---- REST
        rmeth = getattr(rclient, cell['py'], None)
        seam.log.clear()
        from google.protobuf import json_format
        seam.script = [(200, json_format.MessageToJson(reply).encode())]
        try:
            if kwargs is not None:
                rmeth(**kwargs)
            elif req is not None:
                rmeth(request=req)
            else:
                rmeth(request=G.deserialize(exp.SerializeToString()))
            out['calls'] += 1
            if len(seam.log) != 1:
                fail(cell, 'rest', 'call-count', len(seam.log))
                continue
            e = seam.log[0]
            rule = None
            from google.api import annotations_pb2
            for f in p.req.proto_file:
                for s in f.service:
                    for m in s.method:
                        if f.package == tp and m.name == cell['rpc']:
                            rule = m.options.Extensions[annotations_pb2.http]
            try:
                got, bi, qkeys = http.reconstruct(Dreq, http.bindings_of(rule), e['verb'], e['url'], e['body'], False)
                if http.normalize(got) != http.normalize(exp):
                    fail(cell, 'rest', 'request-mismatch', f'{probelib.short(got)!r} != {probelib.short(exp)!r} | {e["verb"]} {e["url"]} {e["body"]!r}')
                elif pos.startswith('required-query') and Dreq.DESCRIPTOR.fields_by_name[w].json_name not in qkeys:
                    fail(cell, 'rest', 'required-default-missing', f'REQUIRED field {w} is not among the query parameters {qkeys} | {e["url"]}')
                else:
                    ok('ok-rest')
            except http.Mismatch as mm:
                fail(cell, 'rest', mm.kind, f'{mm.detail} | {e["verb"]} {e["url"]} {e["body"]!r}')
        except BaseException as ex:
            fail(cell, 'rest', 'exception', probelib.exc_info(ex))
        if len(out['samples']) < 2:
            out['samples'].append(dict(cell=cell['id'], python_name=pw, rpc=cell['rpc'], method=cell['py']))

    # ---- asyncio gRPC: same cells, same judgement
    async def amain():
        try:
            ac, ach = lib.aio('Kw')
        except BaseException as ex:
            out['failures'].append(dict(cell='-', path='grpc-asyncio', kind='client-construction', detail=str(probelib.exc_info(ex))[:400]))
            return
        for cell, call_args, judge, raw in aio_plans:
            am = getattr(ac, cell['py'], None)
            if am is None:
                fail(cell, 'grpc-asyncio', 'method-name', f'asyncio client has no method {cell["py"]!r}')
                continue
            ach.log.clear()
            ach.script = [raw]
            try:
                await am(**call_args())
                out['calls'] += 1
                judge('grpc-asyncio', list(ach.log))
            except BaseException as ex:
                fail(cell, 'grpc-asyncio', 'exception', probelib.exc_info(ex))
    asyncio.run(amain())
    return out


if __name__ == '__main__':
    probelib.run(main)
