"""C06 probe: routing header on sync gRPC, asyncio gRPC and REST."""
import asyncio
import itertools
import urllib.parse

from mc import probelib, seams
from mc.ref import routing

HDR = 'x-goog-request-params'


def set_path(d, dotted, v):
    parts = dotted.split('.')
    for p_ in parts[:-1]:
        d = d.setdefault(p_, {})
    d[parts[-1] + ('_' if parts[-1] == 'class' else '')] = v


def main(p):
    a = p.args
    out = dict(calls=0, valuations=0, failures=[], nontrivial=[], outcomes={}, samples=[])
    try:
        lib = probelib.Lib(a['package'])
    except BaseException as e:
        out['import_error'] = probelib.exc_info(e)
        return out
    Resp = p.cls(f'.{a["proto_package"]}.Resp')
    reply = Resp(ok=True)
    raw_reply = reply.SerializeToString()
    seam = seams.HttpSeam().install()
    seam.responder = lambda req: (200, b'{"ok": true}')

    def fail(cell, path, values, kind, detail):
        if len(out['failures']) < 400:
            out['failures'].append(dict(cell=cell['id'], path=path, values=values, kind=kind, detail=str(detail)[:300]))
        out['outcomes'][kind] = out['outcomes'].get(kind, 0) + 1

    def plan(cell):
        """-> list of (values dict field->str, expected header map, rest_ok)"""
        if cell['kind'] == 'explicit' and not cell['params']:
            # the empty annotation: the path variable is filled, and still no header may be sent
            yield {'name': 'shelves/s1'}, {}, True
            yield {'name': 'shelves/a b', 'table': 't'}, {}, True
            return
        if cell['kind'] == 'explicit':
            fields = []
            for f, _ in cell['params']:
                if f not in fields:
                    fields.append(f)
            cands = []
            for f in fields:
                vs = []
                for pf, t in cell['params']:
                    if pf == f:
                        for v in routing.candidate_values(t):
                            if v not in vs:
                                vs.append(v)
                cands.append(vs)
            for combo in itertools.product(*cands):
                vals = dict(zip(fields, combo))
                yield vals, routing.explicit([tuple(x) for x in cell['params']], lambda f: vals.get(f, '')), True
        else:
            vs = cell['vars']
            uri = cell['uri']
            # per variable: a value matching its binding, one needing escaping, empty, arbitrary
            per_var = []
            for v in vs:
                import re
                m = re.search(r'\{' + re.escape(v) + r'(?:=([^}]*))?\}', uri)
                _, toks = routing.parse_template('{x=' + (m.group(1) or '*') + '}')
                ok1 = routing.instantiate(toks)
                ok2 = routing.instantiate(toks, star='a b&c=d+ü', dstar='p q/r')
                per_var.append([(ok1, True), (ok2, True), ('', False), ('other/shape&x=1', False)])
            for combo in itertools.product(*per_var):
                vals = {v: c[0] for v, c in zip(vs, combo)}
                yield vals, dict(vals), all(c[1] for c in combo)
            if not vs:
                yield {}, {}, True

    def request_of(vals):
        d = {'payload': 'pp'}
        for f, v in vals.items():
            if v != '':
                set_path(d, f, v)
        return d

    def judge(cell, path, vals, header, exp):
        if not exp:
            if header is not None and cell['kind'] == 'explicit':
                fail(cell, path, vals, 'header-unexpected', f'{header!r} sent although nothing matches')
            elif header is not None and cell['kind'] == 'implicit':
                fail(cell, path, vals, 'header-unexpected', f'{header!r} sent for a method without path variables')
            else:
                out['outcomes']['ok-absent'] = out['outcomes'].get('ok-absent', 0) + 1
            return
        if header is None:
            return fail(cell, path, vals, 'header-missing', f'expected {exp}')
        if isinstance(header, bytes):
            header = header.decode('latin1')
        try:
            header.encode('ascii')
        except UnicodeError:
            fail(cell, path, vals, 'header-not-ascii', repr(header))
        pairs = urllib.parse.parse_qsl(header, keep_blank_values=True)
        if dict(pairs) != exp or len(pairs) != len(exp):
            fail(cell, path, vals, 'header-mismatch', f'{header!r} decodes to {pairs}, reference {exp}')
        else:
            out['outcomes']['ok-header'] = out['outcomes'].get('ok-header', 0) + 1
            out['nontrivial'].append(f'{cell["id"]}|{path}|{sorted(vals.items())}')

    def header_of_grpc(log):
        if len(log) != 1:
            return 'CALLS', len(log)
        hs = [v for k, v in (log[0]['metadata'] or []) if k == HDR]
        if len(hs) > 1:
            return 'DUP', hs
        return 'OK', (hs[0] if hs else None)

    svc_clients = {}

    def sync_client(svc):
        if ('sync', svc) not in svc_clients:
            svc_clients[('sync', svc)] = lib.sync(svc)
        return svc_clients[('sync', svc)]

    def rest_client(svc):
        if ('rest', svc) not in svc_clients:
            svc_clients[('rest', svc)] = lib.rest(svc)
        return svc_clients[('rest', svc)]

    # ------------------------------------------------------------------ paginated methods: header on every page request
    PAGES = 3

    def page_replies():
        LR = p.cls(f'.{a["proto_package"]}.ListResp')
        return [LR(items=[Resp(ok=True)], next_page_token=(f'tok{i + 1}' if i + 1 < PAGES else '')) for i in range(PAGES)]

    def judge_pages(cell, path, entries, header_of):
        if len(entries) != PAGES:
            return fail(cell, path, cell['values'], 'call-count', f'{len(entries)} page requests, {PAGES} pages scripted')
        for i, e in enumerate(entries):
            judge(cell, f'{path}/page{i + 1}', cell['values'], header_of(e), cell['expected'])

    def grpc_hdr(e):
        hs = [v for k, v in (e['metadata'] or []) if k == HDR]
        return hs[0] if len(hs) == 1 else (None if not hs else '&'.join(hs) + '&DUPLICATE=1')

    def paged_sync(cell):
        from google.protobuf import json_format
        client, ch = sync_client(cell['service'])
        forms = [('sync', dict(request=dict(cell['values'])))] + ([('sync/kwargs', dict(cell['values']))] if cell.get('kwargs') else [])
        for path, kw in forms:
            ch.log.clear()
            ch.script = [r.SerializeToString() for r in page_replies()]
            try:
                got = list(getattr(client, cell['py'])(**kw))
                out['calls'] += PAGES
                if len(got) != PAGES:
                    fail(cell, path, cell['values'], 'items', f'{len(got)} items from {PAGES} one-item pages')
                judge_pages(cell, path, list(ch.log), grpc_hdr)
            except BaseException as e:
                fail(cell, path, cell['values'], 'exception', probelib.exc_info(e))
        rc = rest_client(cell['service'])
        seam.log.clear()
        replies = [json_format.MessageToJson(r).encode() for r in page_replies()]
        seam.responder = lambda req: (200, replies[min(len(seam.log) - 1, PAGES - 1)])
        try:
            got = list(getattr(rc, cell['py'])(request=dict(cell['values'])))
            out['calls'] += PAGES
            if len(got) != PAGES:
                fail(cell, 'rest', cell['values'], 'items', f'{len(got)} items from {PAGES} one-item pages')
            judge_pages(cell, 'rest', list(seam.log), lambda e: {k.lower(): v for k, v in e['headers'].items()}.get(HDR))
        except BaseException as e:
            fail(cell, 'rest', cell['values'], 'exception', probelib.exc_info(e))
        seam.responder = lambda req: (200, b'{"ok": true}')

    async def paged_async(cell, client, ch):
        forms = [('asyncio', dict(request=dict(cell['values'])))] + ([('asyncio/kwargs', dict(cell['values']))] if cell.get('kwargs') else [])
        for path, kw in forms:
            ch.log.clear()
            ch.script = [r.SerializeToString() for r in page_replies()]
            try:
                pager = await getattr(client, cell['py'])(**kw)
                got = [x async for x in pager]
                out['calls'] += PAGES
                if len(got) != PAGES:
                    fail(cell, path, cell['values'], 'items', f'{len(got)} items from {PAGES} one-item pages')
                judge_pages(cell, path, list(ch.log), grpc_hdr)
            except BaseException as e:
                fail(cell, path, cell['values'], 'exception', probelib.exc_info(e))

    plans = {}
    for cell in a['cells']:
        svc = cell.get('service', 'Route')
        if cell['kind'] == 'paged':
            out['valuations'] += 1
            paged_sync(cell)
            continue
        client, ch = sync_client(svc)
        rc = rest_client(svc)
        plans[cell['id']] = list(plan(cell))
        for vals, exp, rest_ok in plans[cell['id']]:
            out['valuations'] += 1
            # sync gRPC
            ch.log.clear()
            ch.script = [[raw_reply]] if cell.get('stream') else [raw_reply]
            try:
                r = getattr(client, cell['py'])(request=request_of(vals))
                if cell.get('stream'):
                    list(r)
                out['calls'] += 1
                st, h = header_of_grpc(ch.log)
                if st != 'OK':
                    fail(cell, 'sync', vals, 'header-duplicate' if st == 'DUP' else 'call-count', h)
                else:
                    judge(cell, 'sync', vals, h, exp)
            except BaseException as e:
                fail(cell, 'sync', vals, 'exception', probelib.exc_info(e))
            if cell.get('kwargs'):
                # the same request given as flattened keyword arguments
                ch.log.clear()
                ch.script = [raw_reply]
                try:
                    getattr(client, cell['py'])(**request_of(vals))
                    out['calls'] += 1
                    st, h = header_of_grpc(ch.log)
                    if st != 'OK':
                        fail(cell, 'sync/kwargs', vals, 'header-duplicate' if st == 'DUP' else 'call-count', h)
                    else:
                        judge(cell, 'sync/kwargs', vals, h, exp)
                except BaseException as e:
                    fail(cell, 'sync/kwargs', vals, 'exception', probelib.exc_info(e))
            # REST
            if rest_ok and not cell.get('no_rest'):
                seam.log.clear()
                if cell.get('stream'):
                    seam.responder = lambda req: (200, b'[{"ok": true}]')
                else:
                    seam.responder = lambda req: (200, b'{"ok": true}')
                try:
                    r = getattr(rc, cell['py'])(request=request_of(vals))
                    if cell.get('stream'):
                        list(r)
                    out['calls'] += 1
                    if len(seam.log) != 1:
                        fail(cell, 'rest', vals, 'call-count', len(seam.log))
                    else:
                        hs = {k.lower(): v for k, v in seam.log[0]['headers'].items()}
                        judge(cell, 'rest', vals, hs.get(HDR), exp)
                except BaseException as e:
                    fail(cell, 'rest', vals, 'exception', probelib.exc_info(e))
        if len(out['samples']) < 3 and len(plans[cell['id']]) > 4:
            vals, exp, _ = plans[cell['id']][len(plans[cell['id']]) // 2]
            out['samples'].append(dict(cell=cell['id'], values=vals, reference_header=exp, valuations=len(plans[cell['id']])))

    async def amain():
        clients = {}
        for cell in a['cells']:
            svc = cell.get('service', 'Route')
            if svc not in clients:
                clients[svc] = lib.aio(svc)
            client, ch = clients[svc]
            if cell['kind'] == 'paged':
                await paged_async(cell, client, ch)
                continue
            for vals, exp, rest_ok in plans[cell['id']]:
                ch.log.clear()
                ch.script = [[raw_reply]] if cell.get('stream') else [raw_reply]
                try:
                    r = await getattr(client, cell['py'])(request=request_of(vals))
                    if cell.get('stream'):
                        [x async for x in r]
                    out['calls'] += 1
                    st, h = header_of_grpc(ch.log)
                    if st != 'OK':
                        fail(cell, 'asyncio', vals, 'header-duplicate' if st == 'DUP' else 'call-count', h)
                    else:
                        judge(cell, 'asyncio', vals, h, exp)
                except BaseException as e:
                    fail(cell, 'asyncio', vals, 'exception', probelib.exc_info(e))
                if cell.get('kwargs'):
                    ch.log.clear()
                    ch.script = [raw_reply]
                    try:
                        await getattr(client, cell['py'])(**request_of(vals))
                        out['calls'] += 1
                        st, h = header_of_grpc(ch.log)
                        if st != 'OK':
                            fail(cell, 'asyncio/kwargs', vals, 'header-duplicate' if st == 'DUP' else 'call-count', h)
                        else:
                            judge(cell, 'asyncio/kwargs', vals, h, exp)
                    except BaseException as e:
                        fail(cell, 'asyncio/kwargs', vals, 'exception', probelib.exc_info(e))

    asyncio.run(amain())
    if len(out['nontrivial']) > 4000:
        out['nontrivial_total'] = len(out['nontrivial'])
    return out


if __name__ == '__main__':
    probelib.run(main)
