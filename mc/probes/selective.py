"""C16 probe: which types/clients/methods exist, and one driven call per available RPC."""
import re

from mc import probelib, seams
from mc.ref import names

clock = seams.VirtualClock().install()

from google.longrunning import operations_pb2  # noqa: E402
from google.protobuf import any_pb2  # noqa: E402


OPS_CHANNELS = []


def main(p):
    a = p.args
    out = dict(types_present=[], services={}, calls={})
    # clients that the emitted code builds on its own (the extended-operation polling client) get anonymous credentials and
    # a channel that answers every poll with a finished operation
    import google.auth
    from google.api_core import grpc_helpers
    from google.auth.credentials import AnonymousCredentials as _Anon

    def _ops_channel(*a_, **k_):
        ch = seams.FakeChannel(clock)

        def responder(kind, path):
            Op = p.cls(f'.{a["proto_package"]}.Operation')
            return Op(name='op1', status=1).SerializeToString()      # Status.DONE
        ch.responder = responder
        OPS_CHANNELS.append(ch)
        return ch
    google.auth.default = lambda *a_, **k_: (_Anon(), 'proj')
    grpc_helpers.create_channel = _ops_channel
    try:
        lib = probelib.Lib(a['package'])
    except BaseException as e:
        return dict(import_error=probelib.exc_info(e))
    tp = a['proto_package']
    # the unversioned alias package re-exports what the versioned one offers
    import importlib
    unv = re.sub(r'_v\d+\w*$', '', a['package'])
    if unv != a['package']:
        try:
            um = importlib.import_module(unv)
            lost = [n for n in getattr(lib.pkg, '__all__', ()) if not hasattr(um, n)]
            if lost:
                out['unversioned_error'] = f'names of the versioned package missing: {lost[:4]}'
        except ModuleNotFoundError as e:
            if e.name != unv:
                out['unversioned_error'] = f'{type(e).__name__}: {e}'
        except BaseException as e:
            out['unversioned_error'] = f'{type(e).__name__}: {e}'
    for full in a['all_types']:
        try:
            if lib.type_of('.' + full, tp) is not None:
                out['types_present'].append(full)
        except AttributeError:
            pass
    svc_names = sorted({s for s, _ in a['rpcs']})
    for svc in svc_names:
        info = dict(clients=[], methods={})
        for n in dir(lib.pkg):
            if re.fullmatch(r'(Base)?' + svc + r'(Async)?Client', n):
                cls = getattr(lib.pkg, n)
                info['clients'].append(n)
                wanted = {names.py_method(r) for s, r in a['rpcs'] if s == svc}
                info['methods'][n] = sorted(m for m in dir(cls) if m.lstrip('_') in wanted and not m.startswith('__')
                                            and callable(getattr(cls, m)))
        out['services'][svc] = info
    # one driven call per RPC that exists under its public or internal name
    for svc, rpc in a['rpcs']:
        cname = next((c for c in (svc + 'Client', 'Base' + svc + 'Client') if hasattr(lib.pkg, c)), None)
        if cname is None:
            continue
        C = getattr(lib.pkg, cname)
        py = names.py_method(rpc)
        mname = py if hasattr(C, py) else ('_' + py if hasattr(C, '_' + py) else None)
        if mname is None:
            continue
        ch = seams.FakeChannel(clock)
        from google.auth.credentials import AnonymousCredentials
        client = C(transport=C.get_transport_class('grpc')(channel=ch, credentials=AnonymousCredentials()))
        mdesc = None
        for f in p.req.proto_file:
            if f.package == tp:
                for s in f.service:
                    if s.name == svc:
                        for m in s.method:
                            if m.name == rpc:
                                mdesc = m
        Dreq, Dresp = p.cls(mdesc.input_type), p.cls(mdesc.output_type)
        req = Dreq()
        first = Dreq.DESCRIPTOR.fields[0]
        setattr(req, first.name, {'GetA': 'as/1', 'GetB': 'bs/1', 'ListItems': 'as/1', 'RunLro': 'as/1', 'GetTree': 'trees/1',
                                  'Touch': 'widgets/1', 'StartX': 'p1', 'Get': 'op1', 'Other': 'others/1', 'Plain': 'plains/1'}.get(rpc, 'x/1'))
        if rpc == 'Get':
            req.project = 'p1'
        rec = {}
        try:
            oi = mdesc.options.Extensions[operations_pb2.operation_info]
            if oi.response_type:
                full_of = lambda t: '.' + (t if '.' in t else f'{tp}.{t}')
                res = p.cls(full_of(oi.response_type))()
                probelib.fill_all(res, 2, 0)
                op = operations_pb2.Operation(name='operations/o1', done=True)
                op.response.type_url = 'type.googleapis.com/' + res.DESCRIPTOR.full_name
                op.response.value = res.SerializeToString()
                md = p.cls(full_of(oi.metadata_type))()
                probelib.fill_all(md, 2, 0)
                op.metadata.type_url = 'type.googleapis.com/' + md.DESCRIPTOR.full_name
                op.metadata.value = md.SerializeToString()
                ch.script = [op.SerializeToString()]
                fut = getattr(client, mname)(request=probelib.native(req))
                r = fut.result()
                rec['returned'] = None if r is None else [type(r).__name__, probelib.wire_of(r).hex()]
                m_ = fut.metadata
                rec['metadata'] = None if m_ is None else [type(m_).__name__, probelib.wire_of(m_).hex()]
            elif rpc == 'StartX':
                # extended operation: the call returns a future that polls the operation service through its polling method
                Op = p.cls(f'.{tp}.Operation')
                ch.script = [Op(name='op1', status=2).SerializeToString()]          # Status.PENDING
                del OPS_CHANNELS[:]
                fut = getattr(client, mname)(request=probelib.native(req))
                rec['returned'] = [type(fut).__name__, '']
                fut.result()
                rec['polls'] = [dict(path=e['path'], raw=e['raw'].hex()) for c_ in OPS_CHANNELS for e in c_.log]
            elif rpc == 'ListItems':
                pg = Dresp()
                pg.items.add(name='i0')
                pg.items.add(name='i1')
                ch.script = [pg.SerializeToString()]
                r = getattr(client, mname)(request=probelib.native(req))
                rec['returned'] = [type(r).__name__, [probelib.wire_of(x).hex() for x in r]]
            else:
                rep = Dresp()
                if mdesc.output_type != '.google.protobuf.Empty':
                    probelib.fill_all(rep, 3, 0)
                ch.script = [rep.SerializeToString()]
                r = getattr(client, mname)(request=probelib.native(req))
                try:
                    rec['returned'] = None if r is None else [type(r).__name__, probelib.wire_of(r).hex()]
                except BaseException:
                    rec['returned'] = [type(r).__name__, 'not-a-message']
            rec['log'] = [dict(kind=e['kind'], path=e['path'], raw=e['raw'].hex(),
                               routing=[v for k, v in (e['metadata'] or []) if k == 'x-goog-request-params']) for e in ch.log]
        except BaseException as e:
            rec['exception'] = probelib.exc_info(e)
        out['calls'][f'{svc}.{rpc}'] = rec
    return out


if __name__ == '__main__':
    probelib.run(main)
