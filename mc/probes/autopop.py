"""C18 probe: auto-populated UUID4 fields on sync gRPC, asyncio gRPC and REST."""
import asyncio
import json
import re

from mc import probelib, seams
from mc.ref import names

UUID4 = re.compile(r'^[0-9a-f]{8}-[0-9a-f]{4}-4[0-9a-f]{3}-[89ab][0-9a-f]{3}-[0-9a-f]{12}$')


def main(p):
    a = p.args
    out = dict(calls=0, failures=[], nontrivial=[], samples=[])
    try:
        lib = probelib.Lib(a['package'])
        seam = seams.HttpSeam().install()
        sync_clients = {svc: lib.sync(svc) for svc in sorted({d[2] for d in a['drive']})}
        rest_clients = {svc: lib.rest(svc) for svc in sync_clients}
    except BaseException as e:
        return dict(import_error=probelib.exc_info(e))
    Gen = lib.pkg.Req
    tp = a['proto_package']
    Dreq = p.cls(f'.{tp}.Req')
    reply = p.cls(f'.{tp}.Resp')(ok=True)
    seen_ids = set()

    def fail(method, path, fld, state, kind, detail):
        out['failures'].append(dict(method=method, path=path, field=fld, state=state, kind=kind, detail=str(detail)[:300]))

    def plans(fields):
        """-> (varied field, state, request dict, expectations {field: 'uuid' | literal})"""
        if not fields:
            yield None, 'none', {'name': 'n', 'payload': 'p'}, {}
        for fname, optional in fields:
            for state in ('unset', 'empty', 'caller'):
                req = {'name': 'n', 'payload': 'p'}
                exp = {}
                for other, oopt in fields:
                    if other != fname:
                        exp[other] = 'uuid'
                if state == 'unset':
                    exp[fname] = 'uuid'
                elif state == 'empty':
                    req[names.py_field(fname)] = ''
                    exp[fname] = ('', True) if optional else 'uuid'
                else:
                    req[names.py_field(fname)] = 'caller-supplied-id'
                    exp[fname] = ('caller-supplied-id', True)
                yield fname, state, req, exp

    def judge(method, path, fname, state, sent, exp, auto_here):
        if sent.name != 'n' or sent.payload != 'p' or sent.HasField('inner'):
            fail(method, path, fname, state, 'other-fields-altered', probelib.short(sent))
        for f in a['all_auto']:
            val = getattr(sent, f)
            e = exp.get(f)
            if f not in auto_here:
                if val != '':
                    fail(method, path, f, state, 'populated-without-setting', f'{f}={val!r} on a method whose settings do not list it')
                continue
            if e == 'uuid':
                if not UUID4.match(val):
                    fail(method, path, f, state, 'not-populated', f'{f}={val!r} is not an RFC-4122 version-4 UUID')
                elif val in seen_ids:
                    fail(method, path, f, state, 'uuid-reused', val)
                seen_ids.add(val)
            else:
                if val != e[0]:
                    fail(method, path, f, state, 'caller-value-altered', f'{f}={val!r}, caller gave {e[0]!r}')

    drive = a['drive']

    def call_args(form, req):
        # the caller's three ways of saying the same thing: a dict, a request message, flattened keyword arguments
        if form == 'dict':
            return dict(request=dict(req))
        if form == 'message':
            return dict(request=Gen(**req))
        return dict(req)

    FORMS = ('dict', 'message', 'kwargs')
    for method, fields, svc in drive:
        py = a.get('method_prefix', '') + names.py_method(method) if method in a.get('internal_methods', ()) else names.py_method(method)
        client, ch = sync_clients[svc]
        rclient = rest_clients[svc]
        auto_here = [n for n, _ in fields]
        for fname, state, req, exp in plans(fields):
            for rep, form in enumerate(FORMS):
                # sync gRPC
                ch.log.clear(); ch.script = [reply.SerializeToString()]
                try:
                    getattr(client, py)(**call_args(form, req))
                    out['calls'] += 1
                    judge(method, 'sync/' + form, fname, state, Dreq.FromString(ch.log[0]['raw']), exp, auto_here)
                except BaseException as e:
                    fail(method, 'sync/' + form, fname, state, 'exception', probelib.exc_info(e))
                # REST
                seam.log.clear(); seam.script = [(200, b'{"ok": true}')]
                try:
                    getattr(rclient, py)(**call_args(form, req))
                    out['calls'] += 1
                    from google.protobuf import json_format
                    sent = json_format.Parse(seam.log[0]['body'] or b'{}', Dreq())
                    judge(method, 'rest/' + form, fname, state, sent, exp, auto_here)
                except BaseException as e:
                    fail(method, 'rest/' + form, fname, state, 'exception', probelib.exc_info(e))
            out['nontrivial'] += [f'{method}|sync|{fname}|{state}', f'{method}|rest|{fname}|{state}']
            if len(out['samples']) < 2 and state == 'unset' and ch.log:
                out['samples'].append(dict(method=method, field=fname, state=state,
                                           sent=probelib.short(Dreq.FromString(ch.log[0]['raw']))))

    if a.get('no_aio'):
        return out

    async def amain():
        aclients = {svc: lib.aio(svc) for svc in sync_clients}
        for method, fields, svc in drive:
            py = a.get('method_prefix', '') + names.py_method(method) if method in a.get('internal_methods', ()) else names.py_method(method)
            ac, ach = aclients[svc]
            auto_here = [n for n, _ in fields]
            for fname, state, req, exp in plans(fields):
                for rep, form in enumerate(FORMS):
                    ach.log.clear(); ach.script = [reply.SerializeToString()]
                    try:
                        await getattr(ac, py)(**call_args(form, req))
                        out['calls'] += 1
                        judge(method, 'asyncio/' + form, fname, state, Dreq.FromString(ach.log[0]['raw']), exp, auto_here)
                    except BaseException as e:
                        fail(method, 'asyncio/' + form, fname, state, 'exception', probelib.exc_info(e))
                out['nontrivial'].append(f'{method}|asyncio|{fname}|{state}')
    asyncio.run(amain())
    return out


if __name__ == '__main__':
    probelib.run(main)
