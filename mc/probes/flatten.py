"""C05 probe: flattened keyword arguments vs explicit request objects."""
import asyncio
import importlib
import inspect
import itertools

from mc import probelib

ABSENT, TYPICAL, FALSY = 'absent', 'typical', 'falsy'


def main(p):
    a = p.args
    out = dict(calls=0, assignments=0, failures=[], nontrivial=[], outcomes={}, samples=[])
    try:
        lib = probelib.Lib(a['package'])
    except BaseException as e:
        out['import_error'] = probelib.exc_info(e)
        return out
    pkg = lib.pkg
    tp = a['proto_package']
    subpkg = importlib.import_module(a['sub_package']) if a.get('sub_package') else None
    other = importlib.import_module('acme.other.v1.common_pb2') if subpkg is None else None

    # kind -> variant -> (python value factory, apply(dyn))
    def api_values(kind, variant):
        I = pkg.Inner
        t = variant == TYPICAL
        table = {
            'string': ('abc' if t else '', lambda m: setattr(m, 'f_string', 'abc' if t else '')),
            'int': (5 if t else 0, lambda m: setattr(m, 'f_int', 5 if t else 0)),
            'bool': (t, lambda m: setattr(m, 'f_bool', t)),
            'bytes': (b'\x01\x02' if t else b'', lambda m: setattr(m, 'f_bytes', b'\x01\x02' if t else b'')),
            'double': (2.5 if t else 0.0, lambda m: setattr(m, 'f_double', 2.5 if t else 0.0)),
            'enum': (pkg.Color.RED if t else 0, lambda m: setattr(m, 'f_enum', 1 if t else 0)),
            'msg': (I(x=1.5, label='L') if t else I(),
                    (lambda m: (setattr(m.f_msg, 'x', 1.5), setattr(m.f_msg, 'label', 'L'))) if t else (lambda m: m.f_msg.SetInParent())),
            'opt': (7 if t else 0, lambda m: setattr(m, 'f_opt', 7 if t else 0)),
            'oneof': ('a' if t else '', lambda m: setattr(m, 'pick_a', 'a' if t else '')),
            'rstr': (['x', 'y'] if t else [], lambda m: m.r_str.extend(['x', 'y'] if t else [])),
            'rmsg': ([I(x=1.0), I()] if t else [], (lambda m: (m.r_msg.add(x=1.0), m.r_msg.add())) if t else (lambda m: None)),
            'rval': (['v', 2.0] if t else [],
                     (lambda m: (setattr(m.r_val.add(), 'string_value', 'v'), setattr(m.r_val.add(), 'number_value', 2.0))) if t else (lambda m: None)),
            'mss': ({'k': 'v'} if t else {}, (lambda m: m.m_ss.update({'k': 'v'})) if t else (lambda m: None)),
            'msm': ({'k': I(x=2.0)} if t else {}, (lambda m: setattr(m.m_sm['k'], 'x', 2.0)) if t else (lambda m: None)),
            'dot2': ('L' if t else '', lambda m: setattr(m.inner, 'leaf', 'L' if t else '')),
            'dot3': ('D' if t else '', lambda m: setattr(m.outer.mid, 'deep', 'D' if t else '')),
            'rstruct': ([{'k': 'v'}, {'n': 1.0}] if t else [],
                        (lambda m: (m.r_struct.add().update({'k': 'v'}), m.r_struct.add().update({'n': 1.0}))) if t else (lambda m: None)),
            'dotr': (['p', 'q'] if t else [], (lambda m: m.inner.tags.extend(['p', 'q'])) if t else (lambda m: m.inner.SetInParent())),
            'dotm': (pkg.Mid(deep='dd', other=3) if t else pkg.Mid(),
                     (lambda m: (setattr(m.outer.mid, 'deep', 'dd'), setattr(m.outer.mid, 'other', 3))) if t else (lambda m: m.outer.mid.SetInParent())),
            'dotmap': ({'k': 'v'} if t else {}, (lambda m: m.inner.attrs.update({'k': 'v'})) if t else (lambda m: m.inner.SetInParent())),
            'dotrm': ([I(x=1.0), I(label='z')] if t else [],
                      (lambda m: (m.inner.parts.add(x=1.0), m.inner.parts.add(label='z'))) if t else (lambda m: m.inner.SetInParent())),
            'reserved': ('c' if t else '', lambda m: setattr(m, 'class', 'c' if t else '')),
            'module': ('m' if t else '', lambda m: setattr(m, 'flatten', 'm' if t else '')),
        }
        return table[kind]

    def dep_values(kind, variant):
        t = variant == TYPICAL
        Money = subpkg.Money if subpkg is not None else other.Money
        table = {
            'string': ('abc' if t else '', lambda m: setattr(m, 'name', 'abc' if t else '')),
            'int': (5 if t else 0, lambda m: setattr(m, 'count', 5 if t else 0)),
            'rstr': (['x', 'y'] if t else [], lambda m: m.tags.extend(['x', 'y'] if t else [])),
            'mss': ({'k': 'v'} if t else {}, (lambda m: m.attrs.update({'k': 'v'})) if t else (lambda m: None)),
            'msg': (Money(units=3) if t else Money(),
                    (lambda m: setattr(m.money, 'units', 3)) if t else (lambda m: m.money.SetInParent())),
            'bool': (t, lambda m: setattr(m, 'flag', t)),
        }
        return table[kind]

    def fail(cell, client, assignment, kind, detail):
        if len(out['failures']) < 500:
            out['failures'].append(dict(cell=cell['id'], client=client, assignment=assignment, kind=kind,
                                        detail=str(detail)[:400]))
        out['outcomes'][kind] = out['outcomes'].get(kind, 0) + 1

    def plans(cell):
        """Every assignment of the cell's parameters -> (label, kwargs, expected dyn, alt expected dyn)."""
        Dreq = p.cls(cell['req'])
        vals = dep_values if cell['dep'] else api_values
        DOTTED = ('dot2', 'dot3', 'dotr', 'dotm', 'dotmap', 'dotrm')
        for assign in itertools.product((ABSENT, TYPICAL, FALSY), repeat=len(cell['kinds'])):
            kwargs, exp = {}, Dreq()
            optional = []     # dotted falsy: each parent message may or may not be marked present, independently
            for kind, param, variant in zip(cell['kinds'], cell['params'], assign):
                if variant == ABSENT:
                    continue
                value, apply = vals(kind, variant)
                kwargs[param] = value
                apply(exp)
                if kind in DOTTED and variant == FALSY:
                    optional.append(apply)
                    continue
            alt = []
            for mask in itertools.product((False, True), repeat=len(optional)):
                m = Dreq()
                for kind, param, variant in zip(cell['kinds'], cell['params'], assign):
                    if variant != ABSENT and not (kind in DOTTED and variant == FALSY):
                        vals(kind, variant)[1](m)
                for on, ap in zip(mask, optional):
                    if on:
                        ap(m)
                alt.append(m)
            yield '/'.join(assign) or 'none', kwargs, exp, alt, Dreq

    def mixed_requests(cell, Dreq, k):
        """The `request` of a mixed call in its four guises: empty message, empty dict, non-empty dict, non-empty message.
        Single-parameter cells get all four, the others rotate."""
        some = Dreq()
        if cell['dep']:
            some.name = 'nn'
            d = {'name': 'nn'}
        else:
            some.untouched = 'uu'
            d = {'untouched': 'uu'}
        forms = [('empty-message', lambda: request_object(cell, Dreq())), ('empty-dict', lambda: {}), ('dict', lambda: dict(d)),
                 ('message', lambda: request_object(cell, some))]
        return forms if len(cell['kinds']) == 1 else [forms[k % 4]]

    def request_object(cell, exp):
        if cell['dep'] == 'sub':
            return subpkg.FlatRequest.deserialize(exp.SerializeToString())
        if cell['dep']:
            return other.FlatRequest.FromString(exp.SerializeToString())
        return pkg.Req.deserialize(exp.SerializeToString())

    def check_sig(cell, client, meth):
        try:
            ps = [n for n in inspect.signature(meth).parameters]
        except Exception as e:
            return fail(cell, client, '-', 'signature', e)
        exp = ['request'] + cell['params'] + ['retry', 'timeout', 'metadata']
        if ps != exp:
            fail(cell, client, '-', 'signature', f'{ps} != {exp}')

    def judge(cell, client, label, how, log, exp, alt, Dreq):
        if len(log) != 1:
            return fail(cell, client, label, f'{how}-call-count', f'{len(log)} calls')
        try:
            got = Dreq.FromString(log[0]['raw'])
        except Exception as e:
            return fail(cell, client, label, f'{how}-undecodable', e)
        if got != exp and got not in alt:
            fail(cell, client, label, f'{how}-mismatch', f'sent {probelib.short(got)!r} expected {probelib.short(exp)!r}')
        else:
            out['outcomes']['ok'] = out['outcomes'].get('ok', 0) + 1

    Resp = p.cls(a['cells'][0].get('resp') or f'.{tp}.Resp') if a['cells'] else None
    reply = Resp(ok=True).SerializeToString() if Resp else b''

    def drive_sync():
        clients = {}
        for cell in a['cells']:
            if cell['service'] not in clients:
                clients[cell['service']] = lib.sync(cell['service'])
            client, ch = clients[cell['service']]
            meth = getattr(client, cell['py'], None)
            if meth is None:
                fail(cell, 'sync', '-', 'method-missing', cell['py'])
                continue
            check_sig(cell, 'sync', meth)
            for label, kwargs, exp, alt, Dreq in plans(cell):
                out['assignments'] += 1
                ch.log.clear(); ch.script = [reply]
                try:
                    meth(**kwargs)
                    out['calls'] += 1
                    judge(cell, 'sync', label, 'kwargs', list(ch.log), exp, alt, Dreq)
                    if ch.log:
                        out['nontrivial'].append(f'{cell["id"]}|sync|{label}')
                except BaseException as e:
                    fail(cell, 'sync', label, 'kwargs-exception', probelib.exc_info(e))
                ch.log.clear(); ch.script = [reply]
                try:
                    meth(request=request_object(cell, exp))
                    out['calls'] += 1
                    judge(cell, 'sync', label, 'request', list(ch.log), exp, alt, Dreq)
                except BaseException as e:
                    fail(cell, 'sync', label, 'request-exception', probelib.exc_info(e))
                for fname, mk in (mixed_requests(cell, Dreq, out['assignments']) if kwargs else ()):
                    ch.log.clear(); ch.script = [reply]
                    try:
                        meth(request=mk(), **kwargs)
                        fail(cell, 'sync', label, 'mixed-accepted', f'request ({fname}) + {sorted(kwargs)} did not raise; {len(ch.log)} calls sent')
                    except ValueError:
                        if ch.log:
                            fail(cell, 'sync', label, 'mixed-sent', 'ValueError raised after a call was sent')
                        out['outcomes']['mixed-rejected'] = out['outcomes'].get('mixed-rejected', 0) + 1
                    except BaseException as e:
                        fail(cell, 'sync', label, 'mixed-wrong-exception', probelib.exc_info(e))
                    out['calls'] += 1
            if len(out['samples']) < 3 and len(cell['kinds']) >= 2:
                out['samples'].append(dict(cell=cell['id'], params=cell['params'], paths=cell['paths'],
                                           assignments=3 ** len(cell['kinds'])))

    async def drive_aio():
        clients = {}
        for cell in a['cells']:
            if cell['service'] not in clients:
                clients[cell['service']] = lib.aio(cell['service'])
            client, ch = clients[cell['service']]
            meth = getattr(client, cell['py'], None)
            if meth is None:
                fail(cell, 'asyncio', '-', 'method-missing', cell['py'])
                continue
            check_sig(cell, 'asyncio', meth)
            for label, kwargs, exp, alt, Dreq in plans(cell):
                out['assignments'] += 1
                ch.log.clear(); ch.script = [reply]
                try:
                    await meth(**kwargs)
                    out['calls'] += 1
                    judge(cell, 'asyncio', label, 'kwargs', list(ch.log), exp, alt, Dreq)
                    if ch.log:
                        out['nontrivial'].append(f'{cell["id"]}|asyncio|{label}')
                except BaseException as e:
                    fail(cell, 'asyncio', label, 'kwargs-exception', probelib.exc_info(e))
                ch.log.clear(); ch.script = [reply]
                try:
                    await meth(request=request_object(cell, exp))
                    out['calls'] += 1
                    judge(cell, 'asyncio', label, 'request', list(ch.log), exp, alt, Dreq)
                except BaseException as e:
                    fail(cell, 'asyncio', label, 'request-exception', probelib.exc_info(e))
                for fname, mk in (mixed_requests(cell, Dreq, out['assignments']) if kwargs else ()):
                    ch.log.clear(); ch.script = [reply]
                    try:
                        await meth(request=mk(), **kwargs)
                        fail(cell, 'asyncio', label, 'mixed-accepted', f'request ({fname}) + {sorted(kwargs)} did not raise; {len(ch.log)} calls sent')
                    except ValueError:
                        if ch.log:
                            fail(cell, 'asyncio', label, 'mixed-sent', 'ValueError raised after a call was sent')
                        out['outcomes']['mixed-rejected'] = out['outcomes'].get('mixed-rejected', 0) + 1
                    except BaseException as e:
                        fail(cell, 'asyncio', label, 'mixed-wrong-exception', probelib.exc_info(e))
                    out['calls'] += 1

    drive_sync()
    asyncio.run(drive_aio())
    return out


if __name__ == '__main__':
    probelib.run(main)
