"""Write protoc-style *_pb2.py modules for dependency-only files (no protoc here).

The text is what protoc's python generator emits: the serialized
FileDescriptorProto added to the default pool, classes built by
google.protobuf.internal.builder.  Used to supply "the declared runtime
dependencies" of a library whose API imports a package that is not installed.
"""
import os

from google.protobuf import descriptor_pb2

TEMPLATE = '''# -*- coding: utf-8 -*-
# synthesised by /verif/mc/pb2gen.py (stand-in for protoc --python_out)
from google.protobuf import descriptor as _descriptor
from google.protobuf import descriptor_pool as _descriptor_pool
from google.protobuf import symbol_database as _symbol_database
from google.protobuf.internal import builder as _builder
_sym_db = _symbol_database.Default()
{imports}
DESCRIPTOR = _descriptor_pool.Default().AddSerializedFile({blob!r})
_globals = globals()
_builder.BuildMessageAndEnumDescriptors(DESCRIPTOR, _globals)
_builder.BuildTopDescriptorsAndMessages(DESCRIPTOR, {modname!r}, _globals)
'''


def write_pb2(fdp_bytes, root):
    fdp = descriptor_pb2.FileDescriptorProto.FromString(fdp_bytes)
    clean = descriptor_pb2.FileDescriptorProto()
    clean.CopyFrom(fdp)
    clean.ClearField('source_code_info')
    mod = fdp.name[:-len('.proto')].replace('/', '.') + '_pb2'
    imports = '\n'.join(
        'import ' + dep[:-len('.proto')].replace('/', '.') + '_pb2' for dep in fdp.dependency)
    path = os.path.join(root, *mod.split('.')) + '.py'
    os.makedirs(os.path.dirname(path), exist_ok=True)
    with open(path, 'w') as f:
        f.write(TEMPLATE.format(imports=imports, blob=clean.SerializeToString(), modname=mod))
    return path
