"""Baseline inputs shared by several drivers."""
from .desc import (field, message, enum, method, service, file, request, map_field,
                   EMPTY, OPERATION)

P = 'acme.lib.v1'


def q(n, pkg=P):
    return f'.{pkg}.{n}'


def baseline_file(pkg=P, fname=None, host='acme.googleapis.com', extra_messages=(), extra_methods=(),
                  comments=None, with_streams=True, with_lro=True):
    """Baseline L: resource CRUD + custom method + list + LRO + streaming."""
    dom = host or 'acme.googleapis.com'
    Q = lambda n: q(n, pkg)
    kind = enum('Kind', 'KIND_UNSPECIFIED', 'FICTION', 'POETRY')
    labels_f, labels_e = map_field(Q('Book'), 'labels', 7, 'string', 'string')
    book = message('Book', [
        field('name', 1, 'string'), field('title', 2, 'string'), field('kind', 3, 'enum:' + Q('Kind')),
        field('pages', 4, 'int32'), field('rating', 5, 'double'), field('tags', 6, 'string', repeated=True),
        labels_f, field('cover', 8, 'bytes'),
        field('in_print', 9, 'bool'), field('subtitle', 10, 'string', optional=True),
        field('isbn', 11, 'string', oneof=0), field('issn', 12, 'int64', oneof=0),
        field('author', 13, Q('Book.Author')), field('type', 14, 'string'), field('sequel', 15, Q('Book')),
        field('update_time', 16, '.google.protobuf.Timestamp'),
    ], nested=[labels_e,
               message('Author', [field('given', 1, 'string'), field('family', 2, 'string')])],
        oneofs=['code'], resource=(f'{dom}/Book', 'shelves/{shelf}/books/{book}'))
    shelf = message('Shelf', [field('name', 1, 'string'), field('theme', 2, 'string')],
                    resource=(f'{dom}/Shelf', 'shelves/{shelf}'))
    msgs = [book, shelf,
            message('GetBookRequest', [field('name', 1, 'string', required=True, ref=f'{dom}/Book')]),
            message('CreateBookRequest', [field('parent', 1, 'string', required=True, ref=f'{dom}/Shelf'),
                                          field('book', 2, Q('Book'), required=True),
                                          field('book_id', 3, 'string'),
                                          field('request_id', 4, 'string', uuid4=True)]),
            message('UpdateBookRequest', [field('book', 1, Q('Book'), required=True),
                                          field('update_mask', 2, '.google.protobuf.FieldMask')]),
            message('DeleteBookRequest', [field('name', 1, 'string', required=True, ref=f'{dom}/Book'),
                                          field('force', 2, 'bool')]),
            message('ListBooksRequest', [field('parent', 1, 'string', required=True, ref=f'{dom}/Shelf'),
                                         field('page_size', 2, 'int32'), field('page_token', 3, 'string'),
                                         field('filter', 4, 'string')]),
            message('ListBooksResponse', [field('books', 1, Q('Book'), repeated=True),
                                          field('next_page_token', 2, 'string')]),
            message('MoveBookRequest', [field('name', 1, 'string', required=True),
                                        field('other_shelf', 2, 'string', required=True)]),
            message('MoveBookMetadata', [field('progress', 1, 'int32')]),
            message('StreamBooksRequest', [field('parent', 1, 'string')]),
            message('Chat', [field('text', 1, 'string')]),
            ] + list(extra_messages)
    methods = [
        method('GetBook', Q('GetBookRequest'), Q('Book'), http=('get', '/v1/{name=shelves/*/books/*}'), sigs=['name']),
        method('CreateBook', Q('CreateBookRequest'), Q('Book'), http=('post', '/v1/{parent=shelves/*}/books', 'book'),
               sigs=['parent,book,book_id']),
        method('UpdateBook', Q('UpdateBookRequest'), Q('Book'), http=('patch', '/v1/{book.name=shelves/*/books/*}', 'book'),
               sigs=['book,update_mask']),
        method('DeleteBook', Q('DeleteBookRequest'), EMPTY, http=('delete', '/v1/{name=shelves/*/books/*}'), sigs=['name']),
        method('ListBooks', Q('ListBooksRequest'), Q('ListBooksResponse'), http=('get', '/v1/{parent=shelves/*}/books'),
               sigs=['parent']),
    ]
    if with_lro:
        methods.append(method('MoveBook', Q('MoveBookRequest'), OPERATION,
                              http=('post', '/v1/{name=shelves/*/books/*}:move', '*'),
                              sigs=['name,other_shelf'], lro=('Book', 'MoveBookMetadata')))
    if with_streams:
        methods += [
            method('StreamBooks', Q('StreamBooksRequest'), Q('Book'), ss=True,
                   http=('get', '/v1/{parent=shelves/*}/books:stream')),
            method('Discuss', Q('Chat'), Q('Chat'), cs=True, ss=True),
            method('Upload', Q('Chat'), Q('Chat'), cs=True),
        ]
    methods += list(extra_methods)
    svc = service('Library', methods, host=host)
    fname = fname or pkg.replace('.', '/') + '/library.proto'
    return file(fname, pkg, messages=msgs, enums=[kind], services=[svc], comments=comments)


def baseline(parameter='', **kw):
    return request([baseline_file(**kw)], parameter)


MIXIN_YAML = """\
type: google.api.Service
config_version: 3
name: acme.googleapis.com
title: MC API
apis:
- name: {service}
- name: google.cloud.location.Locations
- name: google.iam.v1.IAMPolicy
- name: google.longrunning.Operations
http:
  rules:
  - selector: google.cloud.location.Locations.GetLocation
    get: '/v1/{{name=projects/*/locations/*}}'
  - selector: google.cloud.location.Locations.ListLocations
    get: '/v1/{{name=projects/*}}/locations'
  - selector: google.iam.v1.IAMPolicy.GetIamPolicy
    get: '/v1/{{resource=shelves/*}}:getIamPolicy'
  - selector: google.iam.v1.IAMPolicy.SetIamPolicy
    post: '/v1/{{resource=shelves/*}}:setIamPolicy'
    body: '*'
  - selector: google.iam.v1.IAMPolicy.TestIamPermissions
    post: '/v1/{{resource=shelves/*}}:testIamPermissions'
    body: '*'
  - selector: google.longrunning.Operations.CancelOperation
    post: '/v1/{{name=operations/*}}:cancel'
    body: '*'
  - selector: google.longrunning.Operations.DeleteOperation
    delete: '/v1/{{name=operations/*}}'
  - selector: google.longrunning.Operations.GetOperation
    get: '/v1/{{name=operations/*}}'
  - selector: google.longrunning.Operations.ListOperations
    get: '/v1/{{name=operations}}'
"""
