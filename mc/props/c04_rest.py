"""C04 -- REST calls transcode each request exactly as the google.api.http rule prescribes.

Cells = verb x path shape x body (complete product) + additional-binding deviations +
required-field kits; x rest-numeric-enums {off,on}.  Every cell is driven over the
emitted REST transport through the HTTP seam with bounded-exhaustive request
valuations; what the server sees is inverted by mc/ref/http.py (declared binding ->
variables + body + query -> request) and must equal the request sent.
"""
import itertools

from .. import desc, engine
from ..desc import field, message, enum, method, service, file, request, map_field, SCALAR_NAMES
from ..ref import names
from ..report import HarnessError

RULE = ('cells = verb(5) x path shape(11) x body(4) + binding deviations + required-field kits, x numeric enums; per cell: '
        'path-variable palette x {no other field, each other field alone, each pair of other fields, all}; plus unbound '
        'valuations; oracle = transcoder-inverse reconstructs exactly the sent request from path+query+body; '
        'non-trivial = distinct (cell, valuation) that produced HTTP traffic')

P = 'acme.rest.v1'
Q = lambda n: f'.{P}.{n}'
VERBS = ['get', 'put', 'post', 'delete', 'patch']
PATHS = {
    'novar': '/things',
    'bare': '/things/{name}',
    'one': '/{name=shelves/*}',
    'two-seg': '/{name=shelves/*/books/*}',
    'dstar': '/{name=shelves/**}',
    'dotted': '/{a.b=apps/*}',
    'dotted3': '/{a.c.d=deep/*}/x',
    'two-vars': '/{parent=shelves/*}/books/{name}',
    'verb-suffix': '/{name=shelves/*}:check',
    'dotted-reserved-root': '/{license.name=licenses/*}',
    'dotted-reserved-leaf': '/{a.type=types/*}',
    'int-var': '/ids/{id}',
    'bool-var': '/flags/{flag}',
}
BODIES = {'none': None, 'star': '*', 'field': 'payload', 'reserved-field': 'class'}
# a body field that is also the root of the dotted path variable (the usual Update shape)
EXTRA_CELLS = [('patch', 'dotted-reserved-root', 'license'), ('patch', 'dotted', 'a'), ('post', 'dotted3', 'a')]


def base_messages():
    lab, lab_e = map_field(Q('Payload'), 'labels', 5, 'string', 'string')
    qmap, qmap_e = map_field(Q('Req'), 'q_map', 13, 'string', 'string')
    return [
        message('Payload', [field('title', 1, 'string'), field('count', 2, 'int64'), field('kind', 3, 'enum:' + Q('Color')),
                            field('tags', 4, 'string', repeated=True), lab, field('inner', 6, Q('Payload.Inner')),
                            field('from', 7, 'string'), field('snake_case_name', 8, 'string')],
                nested=[lab_e, message('Inner', [field('v', 1, 'double'), field('deep_name', 2, 'string')])]),
        message('C', [field('d', 1, 'string'), field('e', 2, 'int32')]),
        message('A', [field('b', 1, 'string'), field('c', 2, Q('C')), field('zone', 3, 'string'), field('type', 4, 'string')]),
        message('Lic', [field('name', 1, 'string'), field('terms', 2, 'string'), field('format', 3, 'string')]),
        message('QMsg', [field('x', 1, 'int32'), field('y_name', 2, 'string'), field('kind', 3, 'enum:' + Q('Color'))]),
        message('Req', [
            field('name', 1, 'string'), field('parent', 2, 'string'), field('id', 3, 'int64'), field('flag', 4, 'bool'),
            field('a', 5, Q('A')), field('payload', 6, Q('Payload')), field('class', 7, Q('Payload')),
            field('q_str', 8, 'string'), field('q_big', 9, 'int64'), field('q_enum', 10, 'enum:' + Q('Color')),
            field('q_rep', 11, 'string', repeated=True), field('q_msg', 12, Q('QMsg')), qmap,
            field('q_opt', 14, 'int32', optional=True), field('q_double', 15, 'double'), field('q_bytes', 16, 'bytes'),
            field('q_ts', 17, '.google.protobuf.Timestamp'), field('q_mask', 18, '.google.protobuf.FieldMask'),
            field('q_rep_enum', 19, 'enum:' + Q('Color'), repeated=True), field('q_u32', 20, 'uint32'),
            field('q_bool', 21, 'bool'), field('q_dur', 22, '.google.protobuf.Duration'),
            field('q_wrapped', 23, '.google.protobuf.Int64Value'), field('license', 24, Q('Lic')),
            field('q_opt_enum', 25, 'enum:' + Q('Color'), optional=True), field('q_opt_str', 26, 'string', optional=True),
            field('q_opt_bool', 27, 'bool', optional=True)], nested=[qmap_e]),
        message('Resp', [field('ok', 1, 'bool'), field('kind', 2, 'enum:' + Q('Color')), field('big', 3, 'int64'),
                         field('note_text', 4, 'string'), field('items', 5, Q('QMsg'), repeated=True)]),
    ]


def kits():
    """Required-field kits: name -> (request message, http tuple)."""
    out = {}
    fs = [field('name', 1, 'string', required=True)]
    fs += [field(f'r_{t}', i + 2, t, required=True) for i, t in enumerate(SCALAR_NAMES)]
    fs.append(field('opt_extra', 40, 'string'))
    out['scalars-query'] = (message('KitScalars', fs), ('get', '/v1/kit/scalars/{name=shelves/*}'), 'KitScalars')
    out['scalars-query-post-field-body'] = (
        message('KitScalarsB', fs + [field('payload', 41, Q('Payload'))]),
        ('post', '/v1/kit/scalarsb/{name=shelves/*}', 'payload'), 'KitScalarsB')
    out['required-in-path-and-body'] = (
        message('KitPB', [field('name', 1, 'string', required=True), field('payload', 2, Q('Payload'), required=True),
                          field('r_int', 3, 'int32', required=True)]),
        ('patch', '/v1/kit/pb/{name=shelves/*}', 'payload'), 'KitPB')
    out['required-star-body'] = (
        message('KitStar', [field('name', 1, 'string', required=True), field('r_int', 2, 'int32', required=True),
                            field('r_str', 3, 'string', required=True)]),
        ('post', '/v1/kit/star/{name=shelves/*}', '*'), 'KitStar')
    out['required-enum-message'] = (
        message('KitEM', [field('name', 1, 'string', required=True), field('r_enum', 2, 'enum:' + Q('Color'), required=True),
                          field('r_msg', 3, Q('QMsg'), required=True), field('r_rep', 4, 'string', repeated=True, required=True),
                          field('r_opt', 5, 'int32', optional=True, required=True),
                          field('r_opt_enum', 6, 'enum:' + Q('Color'), optional=True, required=True)]),
        ('get', '/v1/kit/em/{name=shelves/*}'), 'KitEM')
    out['required-reserved-names'] = (
        message('KitReserved', [field('license', 1, 'string', required=True), field('from', 2, 'string', required=True),
                                field('type', 3, 'int32', required=True), field('plain', 4, 'string')]),
        ('get', '/v1/kit/reserved/{license=licenses/*}'), 'KitReserved')
    out['required-two-path-vars'] = (
        message('KitTwoVars', [field('parent', 1, 'string', required=True), field('part', 2, 'string', required=True),
                               field('rev', 3, 'int32', required=True), field('verbose', 4, 'bool')]),
        ('get', '/v1/kit/twovars/{parent=shelves/*}/parts/{part=*}/revs/{rev}'), 'KitTwoVars')
    # REQUIRED among several field behaviours, in every position of the list
    from google.api import field_behavior_pb2 as fb
    out['required-several-behaviours'] = (
        message('KitBehaviours', [field('name', 1, 'string', required=True),
                                  field('r_last', 2, 'int32', behaviors=[fb.IMMUTABLE, fb.REQUIRED]),
                                  field('r_mid', 3, 'string', behaviors=[fb.INPUT_ONLY, fb.REQUIRED, fb.IMMUTABLE]),
                                  field('r_first', 4, 'bool', behaviors=[fb.REQUIRED, fb.IMMUTABLE]),
                                  field('r_after_optional', 5, 'double', behaviors=[fb.OPTIONAL, fb.REQUIRED]),
                                  field('not_required', 6, 'int32', behaviors=[fb.IMMUTABLE, fb.INPUT_ONLY])]),
        ('get', '/v1/kit/behaviours/{name=shelves/*}'), 'KitBehaviours')
    # REQUIRED fields whose names have segments that start with a digit (JSON names max2dTiles, sha256sum)
    out['required-digit-names'] = (
        message('KitDigits', [field('name', 1, 'string', required=True), field('max_2d_tiles', 2, 'int32', required=True),
                              field('sha_256sum', 3, 'string', required=True), field('v2_id', 4, 'string', required=True),
                              field('view_mode', 5, 'string')]),
        ('get', '/v1/kit/digits/{name=shelves/*}'), 'KitDigits')
    out['required-nested-path'] = (
        message('KitNested', [field('a', 1, Q('A'), required=True), field('r_str', 2, 'string', required=True)]),
        ('get', '/v1/kit/nested/{a.b=apps/*}'), 'KitNested')
    return out


def build(numeric):
    msgs = base_messages()
    meths, cells = [], []
    i = 0
    for verb, ps, bd in itertools.product(VERBS, PATHS, BODIES):
        i += 1
        uri = f'/v1/c{i}' + PATHS[ps]
        rpc = f'M{i}'
        meths.append(method(rpc, Q('Req'), Q('Resp'), http=(verb, uri, BODIES[bd])))
        cells.append(dict(id=f'{verb}/{ps}/{bd}', rpc=rpc, py=f'm{i}', req=Q('Req'), kind='product'))
    for verb, ps, body_field in EXTRA_CELLS:
        i += 1
        rpc = f'M{i}'
        meths.append(method(rpc, Q('Req'), Q('Resp'), http=(verb, f'/v1/c{i}' + PATHS[ps], body_field)))
        cells.append(dict(id=f'{verb}/{ps}/body-is-var-root:{body_field}', rpc=rpc, py=f'm{i}', req=Q('Req'), kind='product'))
    # additional-binding deviations on fixed verb/path
    for bd in ('star', 'none', 'field'):
        for nb in (1, 2):
            i += 1
            rpc = f'M{i}'
            extra = [('get', f'/v1/c{i}/alt/{{parent=shelves/*}}')]
            if nb == 2:
                extra.append(('post', f'/v1/c{i}/fallback', BODIES[bd]))
            meths.append(method(rpc, Q('Req'), Q('Resp'), http=('post', f'/v1/c{i}/{{name=shelves/*}}', BODIES[bd], extra)))
            cells.append(dict(id=f'bindings{nb}/{bd}', rpc=rpc, py=f'm{i}', req=Q('Req'), kind='bindings'))
        # same body spec on every binding
        i += 1
        rpc = f'M{i}'
        meths.append(method(rpc, Q('Req'), Q('Resp'), http=('post', f'/v1/c{i}/{{name=shelves/*}}', BODIES[bd], [
            ('post', f'/v1/c{i}/alt/{{parent=shelves/*}}', BODIES[bd]), ('post', f'/v1/c{i}/fallback', BODIES[bd])])))
        cells.append(dict(id=f'bindings-samebody/{bd}', rpc=rpc, py=f'm{i}', req=Q('Req'), kind='bindings'))
    for kname, (m, http, mname) in kits().items():
        msgs.append(m)
        i += 1
        rpc = f'M{i}'
        meths.append(method(rpc, Q(mname), Q('Resp'), http=http))
        cells.append(dict(id=f'kit/{kname}', rpc=rpc, py=f'm{i}', req=Q(mname), kind='kit'))
    # a primary `custom` pattern (not transcodable) with regular additional bindings: the call goes through one of those
    for bd in ('none', 'star'):
        i += 1
        rpc = f'M{i}'
        extra = [('get' if bd == 'none' else 'post', f'/v1/c{i}/{{name=shelves/*}}', BODIES[bd]),
                 ('delete', f'/v1/c{i}/alt/{{parent=shelves/*}}')]
        meths.append(method(rpc, Q('Req'), Q('Resp'), http=('custom', ('HEAD', f'/v1/c{i}/{{name=shelves/*}}'), None, extra)))
        cells.append(dict(id=f'custom-primary/{bd}', rpc=rpc, py=f'm{i}', req=Q('Req'), kind='bindings'))
    # server streaming over REST, and a method without any binding
    for bd in ('none', 'star'):
        i += 1
        rpc = f'M{i}'
        meths.append(method(rpc, Q('Req'), Q('Resp'), ss=True, http=('post' if bd == 'star' else 'get',
                                                                     f'/v1/c{i}/{{name=shelves/*}}:stream', BODIES[bd])))
        cells.append(dict(id=f'stream/{bd}', rpc=rpc, py=f'm{i}', req=Q('Req'), kind='stream'))
    i += 1
    meths.append(method(f'M{i}', Q('Req'), Q('Resp')))
    cells.append(dict(id='no-binding', rpc=f'M{i}', py=f'm{i}', req=Q('Req'), kind='nobinding'))
    f = file('acme/rest/v1/rest.proto', P, messages=msgs, enums=[enum('Color', 'COLOR_UNSPECIFIED', 'RED', 'BLUE')],
             services=[service('Rest', meths)])
    param = 'transport=rest,autogen-snippets=false' + (',rest-numeric-enums' if numeric else '')
    req = request([f], param)
    desc.gate(req)
    return req, cells


def jobs_for(ctx, only=None):
    jobs = []
    n_split = 8
    for numeric in (False, True):
        req, cells = build(numeric)
        # a sample of the cells once more with client logging at DEBUG (the REST transports then also render the request and the
        # reply for the log record)
        dcells = [dict(c, id='debug-logging/' + c['id']) for c in cells[::6]] if not numeric else []
        if only:
            if only.get('numeric') is not None and bool(only['numeric']) != numeric:
                continue
            dcells = [c for c in dcells if c['id'] in only['cells']]
            cells = [c for c in cells if c['id'] in only['cells']]
        if dcells:
            jobs.append(dict(id='rest/debug-logging', req=req.SerializeToString(), probe='mc.probes.rest',
                             probe_args=dict(package=names.import_package(P), proto_package=P, cells=dcells, numeric=numeric,
                                             seed=ctx.seed, thorough=ctx.thorough, debug_logging=True), _cells=dcells, _numeric=numeric))
        for k in range(n_split):
            part = cells[k::n_split]
            if not part:
                continue
            jobs.append(dict(id=f'rest/numeric={int(numeric)}/{k}', req=req.SerializeToString(), probe='mc.probes.rest',
                             probe_args=dict(package=names.import_package(P), proto_package=P, cells=part, numeric=numeric,
                                             seed=ctx.seed, thorough=ctx.thorough), _cells=part, _numeric=numeric))
    return jobs


def run(ctx, only=None):
    jobs = jobs_for(ctx, only)
    ctx.log(f'{sum(len(j["_cells"]) for j in jobs)} cells in {len(jobs)} jobs')
    total_traffic = 0
    conf = dict(calls=0, mismatches=[], skipped=None)
    for job, res in zip(jobs, engine.run_jobs(jobs)):
        st = dict(numeric=job['_numeric'], cells=[c['id'] for c in job['_cells']][:3])
        if not res['gen']['ok']:
            ctx.violation(f'generation:{res["gen"]["etype"]}:{res["gen"]["where"]}|numeric={job["_numeric"]}',
                          f'generator failed: {res["gen"]["emsg"][:300]}', st)
            continue
        if 'probe_error' in res:
            raise HarnessError(f'C04 probe {job["id"]}: ' + res['probe_error'][-2500:])
        obs = res['obs']
        if obs.get('import_error'):
            e = obs['import_error']
            ctx.violation(f'import:{e["etype"]}:{e["where"]}', f'library does not import: {e["emsg"]}', st)
            continue
        ctx.state(len(job['_cells']), transitions=obs['valuations'])
        ctx.validated_n(len(job['_cells']))
        ctx.evaluated(obs['calls'])
        total_traffic += obs['traffic']
        c = obs.get('conformance') or {}
        conf['calls'] += c.get('calls') or 0
        conf['mismatches'] += c.get('mismatches') or []
        conf['skipped'] = conf['skipped'] or c.get('skipped')
        for k in obs['nontrivial']:
            ctx.nontrivial_case(f'{job["_numeric"]}|{k}')
        for k, v in obs['outcomes'].items():
            ctx.outcome(k, v)
        for s in obs['samples']:
            ctx.sample(s)
        for f in obs['failures']:
            fp = (f'{f["cause"]}|{f["kind"]}' if f.get('cause') else
                  f'{f["cell"].replace("debug-logging/", "")}|numeric={int(job["_numeric"])}|{f["kind"]}|{f.get("sub", "")}')
            ctx.violation(fp,
                          f'{f["cell"]} numeric={job["_numeric"]} valuation={f["val"]}: {f["kind"]}: {f["detail"]}',
                          dict(numeric=job['_numeric'], cells=[f['cell']]))
    if not only and total_traffic < 5000 and not ctx.violations:
        raise HarnessError(f'C04 exploration collapsed: {total_traffic} HTTP requests observed')
    ctx.extra['http_requests_observed'] = total_traffic
    ctx.extra['seam_conformance'] = dict(calls_through_real_http_server=conf['calls'], mismatches=len(conf['mismatches']), skipped=conf['skipped'])
    if conf['mismatches'] and not ctx.violations:
        raise HarnessError(f'C04 seam conformance: HTTP seam and real loopback server disagree: {conf["mismatches"][:3]}')
    ctx.extra['bound'] = 'verb x path x body complete; valuations: path palette x {none, singles, pairs, all} of the other fields'
    ctx.assume('an empty-but-present singular sub-message is not distinguishable from an absent one in a URL; both sides are normalised')


def replay(ctx, state):
    run(ctx, only=state)
