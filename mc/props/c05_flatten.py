"""C05 -- flattened keyword arguments are equivalent to an explicit request object.

Cells = methods with 0..3 signatures over 18 parameter kinds (every kind alone, every
ordered pair, multi-signature and 4/5-parameter methods), request in the API package or
in a dependency package.  Per method: every assignment absent/typical/falsy-not-None of
every flattened parameter (3^n), each also sent as the equivalent request object, and
every (request given) x (non-empty argument subset) for the exclusion clause; sync and
asyncio.  Judged by dynamic messages of the input descriptors.
"""
import itertools

from .. import desc, engine
from ..desc import field, message, enum, method, service, file, request, map_field
from ..ref import names
from ..report import HarnessError

RULE = ('cells = signature shapes (singles, all ordered pairs of 18 parameter kinds, multi-signature, dependency-package '
        'request); per cell all 3^n assignments {absent,typical,falsy} + mixed request/kwargs calls, x {sync,asyncio}; '
        'non-trivial = distinct (cell, client, assignment) that put a request on the wire')

P = 'acme.flat.v1'
Q = lambda n: f'.{P}.{n}'
KINDS = {  # kind -> signature path
    'string': 'f_string', 'int': 'f_int', 'bool': 'f_bool', 'bytes': 'f_bytes', 'double': 'f_double',
    'enum': 'f_enum', 'msg': 'f_msg', 'opt': 'f_opt', 'oneof': 'pick_a', 'rstr': 'r_str', 'rmsg': 'r_msg',
    'rval': 'r_val', 'mss': 'm_ss', 'msm': 'm_sm', 'dot2': 'inner.leaf', 'dot3': 'outer.mid.deep',
    'reserved': 'class', 'module': 'flatten',
    # dotted paths that end in a repeated / message / map / repeated-message field; the request also has *top-level* fields
    # with the leaf names (tags, mid, attrs, parts) that no signature mentions: a write to the wrong level shows on the wire
    'rstruct': 'r_struct', 'dotr': 'inner.tags', 'dotm': 'outer.mid', 'dotmap': 'inner.attrs', 'dotrm': 'inner.parts',
}
DEP_KINDS = {'string': 'name', 'int': 'count', 'rstr': 'tags', 'mss': 'attrs', 'msg': 'money', 'bool': 'flag'}


def param_name(path):
    return names.py_field(path.split('.')[-1])


def build():
    mss, mss_e = map_field(Q('Req'), 'm_ss', 14, 'string', 'string')
    msm, msm_e = map_field(Q('Req'), 'm_sm', 15, 'string', Q('Inner'))
    iattrs, iattrs_e = map_field(Q('Inner2'), 'attrs', 4, 'string', 'string')
    tattrs, tattrs_e = map_field(Q('Req'), 'attrs', 23, 'string', 'string')
    msgs = [
        message('Inner', [field('x', 1, 'double'), field('label', 2, 'string')]),
        message('Mid', [field('deep', 1, 'string', required=True), field('other', 2, 'int32')]),
        message('Inner2', [field('leaf', 1, 'string'), field('mid', 2, Q('Mid')), field('tags', 3, 'string', repeated=True), iattrs,
                           field('parts', 5, Q('Inner'), repeated=True)], nested=[iattrs_e]),
        message('Outer', [field('mid', 1, Q('Mid')), field('tag', 2, 'string')]),
        message('Req', [
            # some of the flattened fields are REQUIRED: the parameter order is the declared one all the same
            field('f_string', 1, 'string'), field('f_int', 2, 'int64', required=True), field('f_bool', 3, 'bool'),
            field('f_bytes', 4, 'bytes'), field('f_double', 5, 'double'), field('f_enum', 6, 'enum:' + Q('Color')),
            field('f_msg', 7, Q('Inner'), required=True), field('f_opt', 8, 'int32', optional=True),
            field('pick_a', 9, 'string', oneof=0), field('pick_b', 10, 'int64', oneof=0),
            field('r_str', 11, 'string', repeated=True, required=True), field('r_msg', 12, Q('Inner'), repeated=True),
            field('r_val', 13, '.google.protobuf.Value', repeated=True), mss, msm,
            field('inner', 16, Q('Inner2')), field('class', 17, 'string'), field('flatten', 18, 'string'),
            field('outer', 19, Q('Outer')), field('untouched', 20, 'string'),
            field('tags', 21, 'string', repeated=True), field('mid', 22, Q('Mid')), tattrs, field('parts', 24, Q('Inner'), repeated=True),
            field('r_struct', 25, '.google.protobuf.Struct', repeated=True)],
            nested=[mss_e, msm_e, tattrs_e], oneofs=['pick']),
        message('Resp', [field('ok', 1, 'bool')]),
    ]
    cells, meths = [], []

    def add(rpc, sigs, cid, kinds, svc='Flat', req=Q('Req'), dep=False):
        order = []
        table = DEP_KINDS if dep else KINDS
        for s in sigs:
            for k in s:
                if k not in order:
                    order.append(k)
        # the annotation is free text: blanks around the commas and at the ends are allowed spellings (rotated per method)
        sep = (',', ', ', ' , ', ',  ')[len(cells) % 4]
        pad = ' ' if len(cells) % 5 == 4 else ''
        sig_strs = [pad + sep.join(table[k] for k in s) + pad for s in sigs]
        cells.append(dict(id=cid, service=svc, rpc=rpc, py=names.py_method(rpc), req=req, dep=dep, kinds=order,
                          params=[param_name(table[k]) for k in order], paths=[table[k] for k in order]))
        return method(rpc, req, Q('Resp'), sigs=sig_strs)

    i = 0
    for k in KINDS:
        i += 1
        meths.append(add(f'One{i}', [[k]], f'single/{k}', [k]))
    for a, b in itertools.permutations(KINDS, 2):
        if (KINDS[a] + '.').startswith(KINDS[b] + '.') or (KINDS[b] + '.').startswith(KINDS[a] + '.'):
            continue    # overlapping paths (outer.mid and outer.mid.deep): "the equivalent request" is not well defined
        i += 1
        meths.append(add(f'Two{i}', [[a, b]], f'pair/{a},{b}', [a, b]))
    meths.append(add('NoSig', [], 'nosig', []))
    meths.append(add('TwoSigs', [['string', 'int'], ['string', 'bool']], 'sigs2/overlap', None))
    meths.append(add('ThreeSigs', [['string'], ['int', 'string'], ['msg', 'opt', 'string', 'rstr']], 'sigs3/overlap', None))
    meths.append(add('Four', [['string', 'msg', 'rstr', 'mss']], 'tuple4', None))
    meths.append(add('FiveA', [['dot2', 'dot3', 'reserved', 'module', 'oneof']], 'tuple5/names', None))
    # request type from a dependency package (plain protobuf class, not proto-plus)
    op = 'acme.other.v1'
    dmss, dmss_e = map_field(f'.{op}.FlatRequest', 'attrs', 4, 'string', 'string')
    dep = file('acme/other/v1/common.proto', op, messages=[
        message('Money', [field('units', 1, 'int64'), field('currency', 2, 'string')]),
        message('FlatRequest', [field('name', 1, 'string'), field('count', 2, 'int64'),
                                field('tags', 3, 'string', repeated=True), dmss,
                                field('money', 5, f'.{op}.Money'), field('flag', 6, 'bool')], nested=[dmss_e])])
    dmeths = []
    j = 0
    for k in DEP_KINDS:
        j += 1
        dmeths.append(add(f'DepOne{j}', [[k]], f'dep/single/{k}', [k], svc='FlatDep', req=f'.{op}.FlatRequest', dep=True))
    for a, b in itertools.permutations([k for k in DEP_KINDS if k != 'msg'], 2):
        j += 1
        dmeths.append(add(f'DepTwo{j}', [[a, b]], f'dep/pair/{a},{b}', [a, b], svc='FlatDep', req=f'.{op}.FlatRequest', dep=True))
    main = file('acme/flat/v1/flatten.proto', P, messages=msgs, enums=[enum('Color', 'COLOR_UNSPECIFIED', 'RED', 'BLUE')],
                services=[service('Flat', meths), service('FlatDep', dmeths)])
    main.dependency.extend(desc.std_dep_names() + [dep.name])
    req = request([main], 'transport=grpc,autogen-snippets=false', extra_dep_files=[dep])
    desc.gate(req)
    return req, cells, dep


def make_job(only=None, seed=0):
    req, cells, dep = build()
    if only:
        cells = [c for c in cells if c['id'] in only]
    return dict(id='c05', req=req.SerializeToString(), probe='mc.probes.flatten', pb2_files=[dep.SerializeToString()],
                probe_args=dict(package=names.import_package(P), proto_package=P, cells=cells, seed=seed)), cells


def subpackage_job(seed=0, only=None, same_package=False):
    """The request message lives in a proto sub-package of the API (a proto-plus type of another package), the service in the
    API package; all messages sit in the sub-package."""
    # same_package (wave 7): the messages sit in *another file of the API's own package* (messages.proto + service.proto)
    sp = P if same_package else P + '.sub'
    tag, svc = ('otherfile', 'FlatOther') if same_package else ('sub', 'FlatSub')
    dmss, dmss_e = map_field(f'.{sp}.FlatRequest', 'attrs', 4, 'string', 'string')
    sub = file('acme/flat/v1/things.proto' if same_package else 'acme/flat/v1/sub/things.proto', sp, messages=[
        message('Money', [field('units', 1, 'int64'), field('currency', 2, 'string')]),
        message('FlatRequest', [field('name', 1, 'string'), field('count', 2, 'int64'), field('tags', 3, 'string', repeated=True), dmss,
                                field('money', 5, f'.{sp}.Money'), field('flag', 6, 'bool')], nested=[dmss_e]),
        message('Resp', [field('ok', 1, 'bool')])])
    cells, meths = [], []
    kinds = [k for k in DEP_KINDS]
    j = 0
    for sig in [[k] for k in kinds] + [list(x) for x in itertools.permutations(['string', 'int', 'rstr', 'bool'], 2)]:
        j += 1
        rpc = f'Sub{j}'
        meths.append(method(rpc, f'.{sp}.FlatRequest', f'.{sp}.Resp', sigs=[','.join(DEP_KINDS[k] for k in sig)]))
        cells.append(dict(id=tag + '/' + ('single/' if len(sig) == 1 else 'pair/') + ','.join(sig), service=svc, rpc=rpc, py=names.py_method(rpc),
                          req=f'.{sp}.FlatRequest', dep='sub', kinds=sig, params=[param_name(DEP_KINDS[k]) for k in sig],
                          paths=[DEP_KINDS[k] for k in sig], resp=f'.{sp}.Resp'))
    main = file('acme/flat/v1/flat_service.proto' if same_package else 'acme/flat/v1/flatsub.proto', P, services=[service(svc, meths)])
    std = desc.std_dep_names()
    sub.dependency.extend(std)
    main.dependency.extend(std + [sub.name])
    req = request([sub, main], 'transport=grpc,autogen-snippets=false')
    desc.gate(req)
    if only:
        cells = [c for c in cells if c['id'] in only]
    return dict(id='c05-otherfile' if same_package else 'c05-subpackage', req=req.SerializeToString(), probe='mc.probes.flatten',
                probe_args=dict(package=names.import_package(P), proto_package=P, cells=cells, seed=seed, sub_package=names.import_package(P) + ('' if same_package else '.sub'))), cells


def control_word_jobs():
    """Thorough only: a flattened parameter named like a client control parameter (DESIGN 9/D7); one library per word."""
    jobs = []
    for w in ('request', 'retry', 'timeout', 'metadata'):
        msgs = [message('Req', [field(w, 1, 'string'), field('other', 2, 'string')]), message('Resp', [field('ok', 1, 'bool')])]
        f = file('acme/flat/v1/flatten.proto', P, messages=msgs,
                 services=[service('Flat', [method('Do', Q('Req'), Q('Resp'), sigs=[f'{w},other'])])])
        req = request([f], 'transport=grpc,autogen-snippets=false')
        desc.gate(req)
        jobs.append(dict(id=f'control-word/{w}', req=req.SerializeToString(), probe='mc.probes.imports', _word=w))
    # two dotted entries of one signature that end in the same leaf name: both parameters would be called `name`
    msgs = [message('Part', [field('name', 1, 'string')]), message('Req', [field('a', 1, Q('Part')), field('b', 2, Q('Part'))]),
            message('Resp', [field('ok', 1, 'bool')])]
    f = file('acme/flat/v1/flatten.proto', P, messages=msgs,
             services=[service('Flat', [method('Do', Q('Req'), Q('Resp'), sigs=['a.name,b.name'])])])
    req = request([f], 'transport=grpc,autogen-snippets=false')
    desc.gate(req)
    jobs.append(dict(id='control-word/same-leaf', req=req.SerializeToString(), probe='mc.probes.imports', _word='same-leaf(a.name,b.name)'))
    return jobs


def run(ctx, only=None):
    if ctx.thorough and not only:
        for job, res in zip(control_word_jobs(), engine.run_jobs(control_word_jobs())):
            ctx.state(1)
            ctx.evaluated(1)
            w = job['_word']
            if not res['gen']['ok']:
                ctx.violation(f'control-word/{w}|generation:{res["gen"]["etype"]}', f'flattened parameter named {w!r}: generator raised '
                              f'{res["gen"]["etype"]}: {res["gen"]["emsg"][:200]}', dict(cells=None))
            elif res.get('obs', {}).get('compile_errors') or res.get('obs', {}).get('import_errors'):
                e = (res['obs']['compile_errors'] or res['obs']['import_errors'])[0]
                ctx.violation(f'control-word/{w}|{e["etype"]}', f'flattened parameter named {w!r}: emitted library is not importable: '
                              f'{e.get("file", e.get("module"))}: {e["emsg"][:200]}', dict(cells=None))
    job, cells = make_job(only, ctx.seed)
    sjob, scells = subpackage_job(ctx.seed, only)
    ctx.log(f'{len(cells)} signature cells + {len(scells)} with the request in a proto sub-package')
    ojob, ocells = subpackage_job(ctx.seed, only, same_package=True)
    ctx.log(f'{len(ocells)} with the request in another file of the same package')
    pairs = [(j, c) for j, c in ((job, cells), (sjob, scells), (ojob, ocells)) if c or not only]
    for (job, cells), res in zip(pairs, engine.run_jobs([j for j, _ in pairs])):
        consume(ctx, job, cells, res, only, floor=job['id'] == 'c05')
    ctx.extra['bound'] = 'all 3^n assignments for n<=5 parameters; singles + all ordered pairs of 18 kinds; dependency-package and sub-package requests'


def consume(ctx, job, cells, res, only, floor):
    if not res['gen']['ok']:
        ctx.state(1)
        ctx.violation(f'generation:{res["gen"]["etype"]}:{res["gen"]["where"]}', f'generator failed: {res["gen"]["emsg"][:300]}',
                      dict(cells=None))
        return
    if 'probe_error' in res:
        raise HarnessError('C05 probe: ' + res['probe_error'][-2000:])
    obs = res['obs']
    if obs.get('import_error'):
        e = obs['import_error']
        ctx.state(1)
        ctx.violation(f'import:{e["etype"]}:{e["where"]}', f'C05 pack does not import: {e["emsg"]}', dict(cells=None))
        return
    ctx.state(len(cells), transitions=obs['assignments'])
    ctx.validated_n(len(cells))
    ctx.evaluated(obs['calls'])
    for k in obs['nontrivial']:
        ctx.nontrivial_case(k)
    for k, v in obs['outcomes'].items():
        ctx.outcome(k, v)
    for s in obs['samples']:
        ctx.sample(s)
    for f in obs['failures']:
        ctx.violation(f'{f["cell"]}|{f["client"]}|{f["kind"]}', f'{f["cell"]} {f["client"]} assignment={f["assignment"]}: '
                      f'{f["kind"]}: {f["detail"]}', dict(cells=[f['cell']]))
    if floor and not only and obs['calls'] < 10 * len(cells) and not ctx.violations:
        raise HarnessError(f'C05 exploration collapsed: {obs["calls"]} calls')


def replay(ctx, state):
    run(ctx, only=state.get('cells'))
