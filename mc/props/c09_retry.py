"""C09 -- default retry and timeout of each method equal its gRPC service-config entry.

Config cells are packed as entries of one service config (one method per cell); for every
cell all server fault histories retryable^k (k <= depth) followed by a terminal answer are
replayed on the sync and asyncio clients under a virtual clock with pinned jitter, and
compared with a reference schedule computed from the JSON entry alone.
"""
import itertools
import json

from .. import desc, engine
from ..desc import field, message, method, service, file, request
from ..ref import names
from ..report import HarnessError

RULE = ('cells = service-config entries (each single canonical status code, pairs, all; timeout x retryPolicy presence; policy '
        'parameter shapes; entries naming 2 methods / 2 services; unnamed methods; service-only entries) ; histories = '
        'retryable^k (k<=4, every combination of the entry codes) + terminal {OK, non-retryable, retryable-elsewhere}; x {sync gRPC, '
        'asyncio gRPC, REST (codes a REST server can express)}, unary and server-streaming methods + explicit per-call overrides; non-trivial = distinct (cell, client, history) with >=2 attempts')

P = 'acme.retry.v1'
Q = lambda n: f'.{P}.{n}'
CODES = ['CANCELLED', 'UNKNOWN', 'INVALID_ARGUMENT', 'DEADLINE_EXCEEDED', 'NOT_FOUND', 'ALREADY_EXISTS', 'PERMISSION_DENIED',
         'RESOURCE_EXHAUSTED', 'FAILED_PRECONDITION', 'ABORTED', 'OUT_OF_RANGE', 'UNIMPLEMENTED', 'INTERNAL', 'UNAVAILABLE',
         'DATA_LOSS', 'UNAUTHENTICATED']
TYPICAL = dict(maxAttempts=5, initialBackoff='0.1s', maxBackoff='60s', backoffMultiplier=1.3)
POLICIES = {
    'typical': TYPICAL,
    'initial>max': dict(maxAttempts=5, initialBackoff='10s', maxBackoff='2s', backoffMultiplier=2),
    'multiplier1': dict(maxAttempts=3, initialBackoff='0.5s', maxBackoff='5s', backoffMultiplier=1),
    'fractional': dict(maxAttempts=4, initialBackoff='0.25s', maxBackoff='1.5s', backoffMultiplier=1.5),
    'hits-max': dict(maxAttempts=9, initialBackoff='1s', maxBackoff='3s', backoffMultiplier=2),
    # back-off long enough for a few faults to outlast any built-in default deadline (api-core's is 120 s)
    'slow': dict(maxAttempts=9, initialBackoff='50s', maxBackoff='100s', backoffMultiplier=2),
}
TIMEOUTS = [None, '5s', '0.5s', '1.5s', '0.000000001s', '3600s']


def dur(s):
    return None if s is None else float(s[:-1])


def cells_and_config():
    """-> (cells, methodConfig list, services {name: [rpc names]})"""
    cells, entries = [], []
    svcs = {'Ret': [], 'Ret2': [], 'Ret3': [], 'admin.Admin': []}
    streams = set()
    cstreams = {}        # rpc -> 'cs' | 'bidi'
    n = 0

    def rpc(svc='Ret'):
        nonlocal n
        n += 1
        name = f'M{n}'
        svcs[svc].append(name)
        return name

    def entry(cid, codes, policy='typical', timeout='60s', with_policy=True, targets=None, stream=False, cstream=None):
        targets = targets or [('Ret', rpc())]
        if stream:
            streams.update(m for _, m in targets)
        if cstream:
            cstreams.update({m: cstream for _, m in targets})
        e = {'name': [{'service': f'{P}.{s}', 'method': m} for s, m in targets]}
        if timeout is not None:
            e['timeout'] = timeout
        if with_policy:
            e['retryPolicy'] = dict(POLICIES[policy], retryableStatusCodes=list(codes))
        entries.append(e)
        for s, m in targets:
            cells.append(dict(id=f'{cid}' + (f'@{s}.{m}' if len(targets) > 1 else ''), service=s.split('.')[-1], rpc=m, py=m.lower(),
                              package=names.import_package(P) + ('.' + s.split('.')[0] if '.' in s else ''),
                              codes=list(codes) if with_policy else [], policy=POLICIES[policy] if with_policy else None,
                              timeout=dur(timeout), named=True, stream=stream or cstream == 'bidi', cstream=cstream))

    # a service-wide entry listed *before* the entries that name methods of that service (the usual layout of published
    # configs): the method's own entry still decides; what the service-wide entry means for the other methods is not judged
    entries.append({'name': [{'service': f'{P}.Ret3'}], 'timeout': '59s',
                    'retryPolicy': dict(POLICIES['hits-max'], retryableStatusCodes=['DEADLINE_EXCEEDED'])})
    entry('after-service-wide/policy+timeout', ['UNAVAILABLE'], policy='fractional', timeout='7.5s', targets=[('Ret3', rpc('Ret3'))])
    entry('after-service-wide/timeout-only', ['UNAVAILABLE'], timeout='3s', with_policy=False, targets=[('Ret3', rpc('Ret3'))])
    for c in CODES:
        entry(f'single/{c}', [c])
    for a, b in [('UNAVAILABLE', 'DEADLINE_EXCEEDED'), ('INTERNAL', 'UNKNOWN'), ('ABORTED', 'RESOURCE_EXHAUSTED')]:
        entry(f'pair/{a}+{b}', [a, b])
    entry('all-codes', CODES)
    for t, wp in itertools.product(TIMEOUTS, (True, False)):
        entry(f'timeout={t}/policy={wp}', ['UNAVAILABLE'], timeout=t, with_policy=wp)
    for pname in POLICIES:
        entry(f'policy/{pname}', ['UNAVAILABLE', 'ABORTED'], policy=pname, timeout='30s')
        entry(f'policy/{pname}/short-deadline', ['UNAVAILABLE'], policy=pname, timeout='2.5s')
    entry('policy-only/slow-backoff', ['UNAVAILABLE'], policy='slow', timeout=None)
    entry('long-timeout/slow-backoff', ['UNAVAILABLE'], policy='slow', timeout='3600s')
    # server-streaming methods: the same defaults govern the start of the stream
    entry('stream/policy+timeout', ['UNAVAILABLE', 'RESOURCE_EXHAUSTED'], timeout='6.5s', stream=True)
    entry('stream/timeout-only', ['UNAVAILABLE'], timeout='4s', with_policy=False, stream=True)
    entry('stream/policy-only', ['UNAVAILABLE'], policy='fractional', timeout=None, stream=True)
    # client-streaming and bidi methods (gRPC only; driven through the sync client): defaults and explicit overrides alike
    entry('client-stream/policy+timeout', ['UNAVAILABLE'], timeout='8.5s', cstream='cs')
    entry('bidi/policy+timeout', ['UNAVAILABLE', 'ABORTED'], policy='fractional', timeout='5s', cstream='bidi')
    entry('two-methods', ['UNAVAILABLE'], targets=[('Ret', rpc()), ('Ret', rpc())])
    entry('two-services', ['INTERNAL'], timeout='7s', targets=[('Ret', rpc()), ('Ret2', rpc('Ret2'))])
    entry('no-codes', [], timeout='9s')
    # a service declared in a proto sub-package of the API
    entry('subpackage-service', ['ABORTED'], policy='fractional', timeout='3s', targets=[('admin.Admin', rpc('admin.Admin'))])
    # methods that no entry names
    for svc in ('Ret', 'Ret2'):
        m = rpc(svc)
        cells.append(dict(id=f'unnamed/{svc}', service=svc, rpc=m, py=m.lower(), codes=[], policy=None, timeout=None, named=False,
                          package=names.import_package(P), stream=False))
    m = rpc('Ret')
    streams.add(m)
    cells.append(dict(id='unnamed/stream', service='Ret', rpc=m, py=m.lower(), codes=[], policy=None, timeout=None, named=False,
                      package=names.import_package(P), stream=True))
    # an entry naming only the service (nothing is demanded of its methods: observed, not judged)
    entries.append({'name': [{'service': f'{P}.Ret2'}], 'timeout': '11s',
                    'retryPolicy': dict(TYPICAL, retryableStatusCodes=['UNAVAILABLE'])})
    return cells, entries, svcs, streams, cstreams


def build():
    cells, entries, svcs, streams, cstreams = cells_and_config()
    msgs = [message('Req', [field('name', 1, 'string')]), message('Resp', [field('ok', 1, 'bool')])]
    mk = lambda m: (method(m, Q('Req'), Q('Resp'), cs=True, ss=cstreams[m] == 'bidi') if m in cstreams else
                    method(m, Q('Req'), Q('Resp'), ss=m in streams, http=('post', f'/v1/{m.lower()}', '*')))
    services = [service(s, [mk(m) for m in ms]) for s, ms in svcs.items() if '.' not in s]
    f = file('acme/retry/v1/retry.proto', P, messages=msgs, services=services)
    sub = file('acme/retry/v1/admin/admin.proto', P + '.admin',
               services=[service('Admin', [mk(m) for m in svcs['admin.Admin']])])
    std = desc.std_dep_names()
    f.dependency.extend(std)
    sub.dependency.extend(std + [f.name])
    req = request([f, sub], 'transport=grpc+rest,autogen-snippets=false,retry-config=@retry.json@')
    desc.gate(req)
    return req, {'retry.json': json.dumps({'methodConfig': entries}, indent=1)}, cells


def doubled_option_job(ctx):
    """retry-config given twice: the last file is the one that counts (gapic/utils/options.py: "Just use the last config
    specified"); the first one names the same methods with other codes, back-off and timeouts."""
    from google.protobuf.compiler import plugin_pb2
    req, of, cells = build()
    decoy = json.loads(of['retry.json'])
    for e in decoy['methodConfig']:
        e['timeout'] = '123s'
        if 'retryPolicy' in e:
            e['retryPolicy'] = dict(maxAttempts=2, initialBackoff='9s', maxBackoff='9s', backoffMultiplier=1, retryableStatusCodes=['DATA_LOSS'])
    r = plugin_pb2.CodeGeneratorRequest()
    r.CopyFrom(req)
    r.parameter = req.parameter.replace('retry-config=@retry.json@', 'retry-config=@decoy.json@,retry-config=@retry.json@')
    part = [dict(c, id='doubled-option/' + c['id']) for c in cells
            if c['id'] in ('single/UNAVAILABLE', 'timeout=5s/policy=False', 'policy/fractional', 'unnamed/Ret', 'stream/policy+timeout')]
    return dict(id='retry/doubled-option', req=r.SerializeToString(), opt_files=dict(of, **{'decoy.json': json.dumps(decoy)}),
                probe='mc.probes.retry', probe_args=dict(package=names.import_package(P), proto_package=P, cells=part, all_codes=CODES,
                                                         depth=3, seed=ctx.seed), _cells=part)


def make_jobs(ctx, only=None):
    req, of, cells = build()
    if only:
        cells = [c for c in cells if c['id'] in only['cells']]
    jobs = []
    n = 8 if not only else 1
    for k in range(n):
        part = cells[k::n]
        if part:
            jobs.append(dict(id=f'retry/{k}', req=req.SerializeToString(), opt_files=of, probe='mc.probes.retry',
                             probe_args=dict(package=names.import_package(P), proto_package=P, cells=part, all_codes=CODES,
                                             depth=4 if not ctx.thorough else 5, seed=ctx.seed), _cells=part))
    if not only or any(c.startswith('doubled-option/') for c in only['cells']):
        dj = doubled_option_job(ctx)
        if only:
            dj['_cells'] = dj['probe_args']['cells'] = [c for c in dj['_cells'] if c['id'] in only['cells']]
        jobs.append(dj)
    return jobs


def run(ctx, only=None):
    jobs = make_jobs(ctx, only)
    ctx.log(f'{sum(len(j["_cells"]) for j in jobs)} config cells')
    hist_total = 0
    for job, res in zip(jobs, engine.run_jobs(jobs)):
        st = dict(cells=[c['id'] for c in job['_cells']][:3])
        if not res['gen']['ok']:
            ctx.violation(f'generation:{res["gen"]["etype"]}:{res["gen"]["where"]}', f'generator failed: {res["gen"]["emsg"][:300]}', st)
            continue
        if 'probe_error' in res:
            raise HarnessError(f'C09 probe {job["id"]}: ' + res['probe_error'][-2500:])
        obs = res['obs']
        if obs.get('import_error'):
            e = obs['import_error']
            ctx.violation(f'import:{e["etype"]}:{e["where"]}', f'library does not import: {e["emsg"]}', st)
            continue
        ctx.state(obs['histories'], transitions=obs['attempts'])
        ctx.validated_n(obs['histories'])
        ctx.evaluated(obs['histories'])
        hist_total += obs['histories']
        for k in obs['nontrivial']:
            ctx.nontrivial_case(k)
        ctx.extra['nontrivial_total'] = ctx.extra.get('nontrivial_total', 0) + obs['nontrivial_total']
        for k, v in obs['outcomes'].items():
            ctx.outcome(k, v)
        for s in obs['samples']:
            ctx.sample(s)
        for f in obs['failures']:
            ctx.violation(f'{f["cell"]}|{f["client"]}|{f["kind"]}', f'{f["cell"]} {f["client"]} history={f["history"]}: {f["kind"]}: {f["detail"]}',
                          dict(cells=[f['cell']]))
    if not only and hist_total < 3000 and not ctx.violations:
        raise HarnessError(f'C09 exploration collapsed: {hist_total} histories')
    ctx.extra['bound'] = 'fault histories retryable^k, k<=4 (5 thorough), every combination of the entry codes (all-codes entry: k<=2)'
    ctx.assume('jitter pinned to its upper bound (random.uniform(a,b)=b); time is virtual; api-core retry/timeout classes are trusted')
    ctx.assume('entries that name only a service are observed, nothing is demanded of them')


def replay(ctx, state):
    run(ctx, only=state)
