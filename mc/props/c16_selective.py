"""C16 -- selective generation keeps exactly the listed RPCs and a closed set of types.

All 2^6 - 1 non-empty subsets of the six RPCs of an API graph built so that every closure
rule matters, x generate_omitted_as_internal {false, true}; each state is generated,
imported and compared with (a) a reference reachability closure computed on the input
descriptors and (b) the full library's wire behaviour for every kept RPC (differential).
"""
import itertools

from google.api import resource_pb2
from google.protobuf.descriptor_pb2 import FieldDescriptorProto as T

from .. import desc, engine
from ..desc import field, message, enum, method, service, file, request, map_field, EMPTY, OPERATION
from ..ref import names
from ..report import HarnessError

RULE = ('states = every non-empty subset of the 6 RPCs x generate_omitted_as_internal{false,true} (+ rejection cells, + the '
        'extended-operation graph in thorough); oracle = reference closure over fields / nested types / LRO types / resource '
        'references on the input descriptors, and differential wire behaviour of kept RPCs vs the full library; non-trivial = '
        'distinct (subset, mode) whose library imported and omitted or renamed at least one element')

P = 'acme.sel.v1'
Q = lambda n: f'.{P}.{n}'
DOM = 'acme.googleapis.com'
RPCS = [('Main', 'GetA'), ('Main', 'GetB'), ('Main', 'ListItems'), ('Main', 'RunLro'), ('Main', 'GetTree'), ('Side', 'Touch'),
        ('Side', 'GetA')]        # the second service has an RPC with the short name of one of the first


def graph():
    kinds = file('acme/sel/v1/kinds.proto', P, enums=[enum('Shade', 'SHADE_UNSPECIFIED', 'DARK'),
                                                     enum('UnusedShade', 'UNUSED_SHADE_UNSPECIFIED', 'US1')])
    items = file('acme/sel/v1/items.proto', P, messages=[
        message('PagedItem', [field('name', 1, 'string'), field('tone', 2, 'enum:' + Q('ItemTone'))]),
        # a chain of resource references: TouchRequest.name -> Widget, Widget.made_by -> Factory (-> its enum)
        message('Widget', [field('name', 1, 'string'), field('part', 2, Q('WidgetPart')), field('made_by', 3, 'string', ref=f'{DOM}/Factory')],
                resource=(f'{DOM}/Widget', 'widgets/{widget}')),
        message('Factory', [field('name', 1, 'string'), field('country', 2, 'enum:' + Q('FactoryCountry'))],
                resource=(f'{DOM}/Factory', 'factories/{factory}')),
        message('WidgetPart', [field('p', 1, 'string')]),
        message('Gizmo', [field('name', 1, 'string')], resource=(f'{DOM}/Gizmo', 'widgets/{widget}/gizmos/{gizmo}')),
        message('OnlyHere', [field('x', 1, 'string')])],
        enums=[enum('ItemTone', 'ITEM_TONE_UNSPECIFIED', 'LOUD'), enum('UnusedEnum', 'UNUSED_ENUM_UNSPECIFIED', 'U1'),
               enum('FactoryCountry', 'FACTORY_COUNTRY_UNSPECIFIED', 'FC1')])
    mf, me = map_field(Q('Forest'), 'by_name', 2, 'string', Q('Tree'))
    parts_f, parts_e = map_field(Q('A'), 'parts', 5, 'string', Q('Part'))
    msgs = [
        message('Shared', [field('s', 1, 'string'), field('deep', 2, Q('SharedDeep'))]),
        message('SharedDeep', [field('d', 1, 'enum:' + Q('DeepEnum'))]),
        message('A', [field('shared', 1, Q('Shared')), field('inner', 2, Q('A.Inner')), field('name', 3, 'string'),
                      field('shade', 4, 'enum:' + Q('Shade')), parts_f],
                nested=[parts_e, message('Inner', [field('mode', 1, 'enum:' + Q('A.Inner.Mode')), field('v', 2, 'string')],
                                enums=[enum('Mode', 'MODE_UNSPECIFIED', 'FAST')])]),
        message('GetARequest', [field('name', 1, 'string')]),
        message('B', [field('shared', 1, Q('Shared')), field('borrowed', 2, Q('A.Inner')), field('only_b', 3, Q('OnlyB'))]),
        message('OnlyB', [field('v', 1, 'int32')]),
        message('GetBRequest', [field('name', 1, 'string')]),
        message('ListItemsRequest', [field('parent', 1, 'string'), field('page_size', 2, 'int32'), field('page_token', 3, 'string')]),
        message('ListItemsResponse', [field('items', 1, Q('PagedItem'), repeated=True), field('next_page_token', 2, 'string')]),
        message('RunLroRequest', [field('name', 1, 'string')]),
        message('LroResult', [field('out', 1, 'string'), field('detail', 2, Q('LroDetail'))]),
        message('LroDetail', [field('n', 1, 'int32')]),
        message('LroMeta', [field('pct', 1, 'int32')]),
        message('GetTreeRequest', [field('name', 1, 'string')]),
        message('Tree', [field('children', 1, Q('Tree'), repeated=True), field('peer', 2, Q('Forest')), field('leaf', 3, 'string')]),
        message('Forest', [field('trees', 1, Q('Tree'), repeated=True), mf], nested=[me]),
        message('Part', [field('maker', 1, Q('Maker'))]), message('Maker', [field('m', 1, 'string')]),
        message('TouchRequest', [field('name', 1, 'string', ref=f'{DOM}/Widget'), field('parent', 2, 'string', child_ref=f'{DOM}/Gizmo')]),
        message('Orphan', [field('o', 1, 'string')], nested=[message('OrphanInner', [field('i', 1, 'string')])]),
        message('GetSideARequest', [field('name', 1, 'string')]),
        message('SideA', [field('name', 1, 'string'), field('era', 2, 'enum:' + Q('SideEra'))]),
    ]
    enums = [enum('DeepEnum', 'DEEP_ENUM_UNSPECIFIED', 'D1'), enum('OrphanEnum', 'ORPHAN_ENUM_UNSPECIFIED', 'O1'), enum('SideEra', 'SIDE_ERA_UNSPECIFIED', 'OLD')]
    main = service('Main', [
        method('GetA', Q('GetARequest'), Q('A'), http=('get', '/v1/{name=as/*}'), sigs=['name']),
        method('GetB', Q('GetBRequest'), Q('B'), http=('get', '/v1/{name=bs/*}')),
        method('ListItems', Q('ListItemsRequest'), Q('ListItemsResponse'), http=('get', '/v1/{parent=as/*}/items')),
        method('RunLro', Q('RunLroRequest'), OPERATION, http=('post', '/v1/{name=as/*}:run', '*'), lro=('LroResult', 'LroMeta')),
        method('GetTree', Q('GetTreeRequest'), Q('Tree'), http=('get', '/v1/{name=trees/*}')),
    ])
    side = service('Side', [method('Touch', Q('TouchRequest'), EMPTY, http=('post', '/v1/{name=widgets/*}:touch', '*')),
                            method('GetA', Q('GetSideARequest'), Q('SideA'), http=('get', '/v1/{name=sideas/*}'))])
    svc = file('acme/sel/v1/svc.proto', P, messages=msgs, enums=enums, services=[main, side])
    std = desc.std_dep_names()
    kinds.dependency.extend(std)
    items.dependency.extend(std)
    svc.dependency.extend(std + [items.name, kinds.name])
    return [kinds, items, svc]


RPCS2 = [('Fleet', 'StartX'), ('Fleet', 'Plain'), ('XOps', 'Get'), ('XOps', 'Other')]


def graph2(ops_first=False):
    """Extended operations: StartX names XOps as its operation service; XOps.Get is the polling method."""
    msgs = [
        message('Operation', [field('name', 1, 'string', operation_field=1), field('http_error_status_code', 2, 'int32', operation_field=3),
                              field('http_error_message', 3, 'string', operation_field=4),
                              field('status', 4, 'enum:' + Q('Operation.Status'), operation_field=2), field('detail', 5, Q('OpDetail'))],
                enums=[enum('Status', 'UNDEFINED_STATUS', 'DONE', 'PENDING', 'RUNNING')]),
        message('OpDetail', [field('d', 1, 'string')]),
        message('GetXOperationRequest', [field('operation', 1, 'string', operation_response_field='name'), field('project', 2, 'string')]),
        message('OtherRequest', [field('name', 1, 'string')]), message('OtherResponse', [field('o', 1, Q('OnlyOther'))]),
        message('OnlyOther', [field('v', 1, 'string')]),
        message('StartXRequest', [field('project', 1, 'string', operation_request_field='project'), field('what', 2, Q('What'))]),
        message('What', [field('w', 1, 'string')]),
        message('PlainRequest', [field('name', 1, 'string')]), message('PlainResponse', [field('p', 1, Q('OnlyPlain'))]),
        message('OnlyPlain', [field('v', 1, 'string')]),
    ]
    xops = service('XOps', [
        method('Get', Q('GetXOperationRequest'), Q('Operation'), http=('get', '/v1/projects/{project}/xops/{operation}'),
               operation_polling=True),
        method('Other', Q('OtherRequest'), Q('OtherResponse'), http=('get', '/v1/{name=others/*}'))])
    fleet = service('Fleet', [
        method('StartX', Q('StartXRequest'), Q('Operation'), http=('post', '/v1/projects/{project}:startx', '*'), operation_service='XOps'),
        method('Plain', Q('PlainRequest'), Q('PlainResponse'), http=('get', '/v1/{name=plains/*}'))])
    f = file('acme/sel/v1/fleet.proto', P, messages=msgs, services=[xops, fleet] if ops_first else [fleet, xops])
    f.dependency.extend(desc.std_dep_names())
    return [f]


def yaml_for(methods, internal, version=P, extra=''):
    y = ('type: google.api.Service\nconfig_version: 3\nname: sel.example.com\npublishing:\n  library_settings:\n'
         f'  - version: {version}\n    python_settings:\n      common:\n        selective_gapic_generation:\n'
         f'          generate_omitted_as_internal: {"true" if internal else "false"}\n          methods:\n'
         + ''.join(f'          - {m}\n' for m in methods))
    return y + extra


RPCS4 = [('Jobs', 'Run'), ('Jobs', 'Purge'), ('Jobs', 'Wipe'), ('Jobs', 'Plain')]


def graph4():
    """LRO shapes: result + metadata, Empty result + metadata, result + Empty metadata; each type reachable through one RPC only."""
    msgs = [
        message('RunRequest', [field('name', 1, 'string')]),
        message('RunResult', [field('out', 1, 'string'), field('detail', 2, Q('RunDetail'))]), message('RunDetail', [field('n', 1, 'int32')]),
        message('RunMeta', [field('pct', 1, 'int32'), field('stage', 2, 'enum:' + Q('RunStage'))]),
        message('PurgeRequest', [field('name', 1, 'string')]),
        message('WipeRequest', [field('name', 1, 'string')]),
        message('WipeResult', [field('w', 1, Q('WipeDetail'))]), message('WipeDetail', [field('d', 1, 'string')]),
        message('PlainRequest', [field('name', 1, 'string')]), message('PlainResponse', [field('p', 1, Q('OnlyPlain'))]),
        message('OnlyPlain', [field('v', 1, 'string')]),
    ]
    enums = [enum('RunStage', 'RUN_STAGE_UNSPECIFIED', 'RS1')]
    # the metadata types of Purge live in a file that the service's file does not import and that is listed after it
    # (operation_info names types by string)
    later = file('acme/sel/v1/zz_purge_types.proto', P, messages=[
        message('PurgeMeta', [field('done_count', 1, 'int32'), field('stage', 2, Q('PurgeStage'))]),
        message('PurgeStage', [field('s', 1, 'string'), field('level', 2, 'enum:' + Q('PurgeLevel'))]),
        message('UnusedLater', [field('u', 1, 'string')])], enums=[enum('PurgeLevel', 'PURGE_LEVEL_UNSPECIFIED', 'PL1')])
    later.dependency.extend(desc.std_dep_names())
    jobs = service('Jobs', [
        method('Run', Q('RunRequest'), OPERATION, http=('post', '/v1/{name=jobs/*}:run', '*'), lro=('RunResult', 'RunMeta')),
        method('Purge', Q('PurgeRequest'), OPERATION, http=('post', '/v1/{name=jobs/*}:purge', '*'),
               lro=('google.protobuf.Empty', 'PurgeMeta')),
        method('Wipe', Q('WipeRequest'), OPERATION, http=('post', '/v1/{name=jobs/*}:wipe', '*'),
               lro=(f'{P}.WipeResult', 'google.protobuf.Empty')),
        method('Plain', Q('PlainRequest'), Q('PlainResponse'), http=('get', '/v1/{name=plains/*}'))])
    # the service sits in a file of its own that declares no message or enum (service.proto importing messages.proto)
    f = file('acme/sel/v1/jobs.proto', P, messages=msgs, enums=enums)
    f.dependency.extend(desc.std_dep_names())
    fs = file('acme/sel/v1/jobs_service.proto', P, services=[jobs])
    fs.dependency.extend(desc.std_dep_names() + [f.name])
    return [f, fs, later]


# ---------------------------------------------------------------- reference closure

def closure(files, kept):
    """kept: set of (service, rpc). -> (must_keep full names, ambiguous full names)."""
    msgs, enums, resources = {}, set(), {}

    def walk(prefix, seq, parent=None):
        for m in seq:
            full = f'{prefix}.{m.name}'
            if m.options.map_entry:
                msgs[full] = (m, parent, True)
                continue
            msgs[full] = (m, parent, False)
            r = m.options.Extensions[resource_pb2.resource]
            if r.type:
                resources[r.type] = full
            for e in m.enum_type:
                enums.add(f'{full}.{e.name}')
            walk(full, m.nested_type, full)
    for f in files:
        walk(f.package, f.message_type)
        for e in f.enum_type:
            enums.add(f'{f.package}.{e.name}')
    keep, amb = set(), set()

    def add(full):
        full = full.lstrip('.')
        if full in enums:
            keep.add(full)
            return
        if full not in msgs or full in keep:
            return
        m, parent, is_entry = msgs[full]
        keep.add(full)
        for fd in m.field:
            if fd.type in (T.TYPE_MESSAGE, T.TYPE_ENUM):
                add(fd.type_name)
            rr = fd.options.Extensions[resource_pb2.resource_reference]
            for t in (rr.type, rr.child_type):
                if t and t in resources:
                    add(resources[t])
        for e in m.enum_type:
            keep.add(f'{full}.{e.name}')
        for n in m.nested_type:
            add(f'{full}.{n.name}')
        # an enclosing message must exist as a container; whether its own fields count is not specified
        p_ = parent
        while p_:
            if p_ not in keep:
                amb.add(p_)
                pm = msgs[p_][0]
                for fd in pm.field:
                    if fd.type in (T.TYPE_MESSAGE, T.TYPE_ENUM):
                        amb.add(fd.type_name.lstrip('.'))
                for e in pm.enum_type:
                    amb.add(f'{p_}.{e.name}')
                for n in pm.nested_type:
                    amb.add(f'{p_}.{n.name}')
            p_ = msgs[p_][1]
    from google.longrunning import operations_pb2
    for f in files:
        for s in f.service:
            for m in s.method:
                if (s.name, m.name) in kept:
                    add(m.input_type)
                    add(m.output_type)
                    oi = m.options.Extensions[operations_pb2.operation_info]
                    for t in (oi.response_type, oi.metadata_type):
                        if t:
                            add(t if '.' in t else f'{f.package}.{t}')
    # transitive closure of the ambiguous set (types only reachable through a container's own fields)
    changed = True
    while changed:
        changed = False
        for a_ in list(amb):
            if a_ in msgs:
                for fd in msgs[a_][0].field:
                    if fd.type in (T.TYPE_MESSAGE, T.TYPE_ENUM) and fd.type_name.lstrip('.') not in amb:
                        amb.add(fd.type_name.lstrip('.'))
                        changed = True
                for n in msgs[a_][0].nested_type:
                    if f'{a_}.{n.name}' not in amb:
                        amb.add(f'{a_}.{n.name}')
                        changed = True
                for e in msgs[a_][0].enum_type:
                    amb.add(f'{a_}.{e.name}')
    all_types = {k for k, v in msgs.items() if not v[2]} | enums
    keep = {k for k in keep if k in all_types}
    return keep, (amb & all_types) - keep, all_types


def make_job(subset, internal, transport='grpc+rest', g=1):
    files = graph() if g == 1 else graph4() if g == 4 else graph2(ops_first=(g == 3))
    rpcs = RPCS if g == 1 else RPCS4 if g == 4 else RPCS2
    param = f'transport={transport},autogen-snippets=false'
    of = None
    if subset is not None:
        param += ',service-yaml=@svc.yaml@'
        of = {'svc.yaml': yaml_for([f'{P}.{s}.{r}' for s, r in subset], internal)}
    req = request(files, param)
    desc.gate(req)
    needed = set(subset) if subset is not None else set(rpcs)
    if g in (2, 3) and ('Fleet', 'StartX') in needed:
        needed.add(('XOps', 'Get'))          # the polling method of the operation service it names
    keep, amb, all_types = closure(files, needed)
    sid = ('' if g == 1 else f'g{g}:') + ('full' if subset is None else '+'.join(r for _, r in subset))
    return dict(id=f'{sid}|internal={internal}', req=req.SerializeToString(), opt_files=of, probe='mc.probes.selective',
                probe_args=dict(package=names.import_package(P), proto_package=P, rpcs=[list(x) for x in rpcs],
                                all_types=sorted(all_types)),
                _subset=subset, _internal=internal, _keep=keep, _amb=amb, _all=all_types, _g=g, _rpcs=rpcs, _needed=needed)


def rejection_jobs():
    files = graph()
    out = []
    for cid, y in (
            ('unknown-method', yaml_for([f'{P}.Main.NoSuchRpc'], False)),
            ('unknown-service', yaml_for([f'{P}.Nope.GetA'], False)),
            ('other-version', yaml_for(['acme.sel.v2.Main.GetA'], False)),
            # settings filed under *another* version of the API (alone, or after a valid entry for this version)
            ('entry-for-other-version', yaml_for([f'{P}.Main.GetA'], False, version='acme.sel.v2')),
            ('entry-for-other-version/unknown-method', yaml_for(['acme.sel.v2.Main.NoSuchRpc'], False, version='acme.sel.v2')),
            ('valid-entry+entry-for-other-version', yaml_for([f'{P}.Main.GetA'], False,
                                                             extra='  - version: acme.sel.v2\n    python_settings:\n      common:\n        selective_gapic_generation:\n          methods:\n          - acme.sel.v2.Main.NoSuchRpc\n')),
            # the mirror image (wave 7): the faulty entry comes first, a valid entry for this version is last
            ('entry-for-other-version+valid-entry', yaml_for(['acme.sel.v2.Main.NoSuchRpc'], False, version='acme.sel.v2',
                                                             extra=f'  - version: {P}\n    python_settings:\n      common:\n        selective_gapic_generation:\n          methods:\n          - {P}.Main.GetA\n')),
            ('unknown-method-entry+two-valid-entries-later', yaml_for([f'{P}.Main.NoSuchRpc'], False, version='acme.sel.v1beta',
                                                             extra=f'  - version: acme.other.v1\n    python_settings:\n      common:\n        selective_gapic_generation:\n          methods: []\n'
                                                                   f'  - version: {P}\n    python_settings:\n      common:\n        selective_gapic_generation:\n          methods:\n          - {P}.Main.GetA\n')),
            ('duplicate-version', yaml_for([f'{P}.Main.GetA'], False,
                                           extra=f'  - version: {P}\n    python_settings:\n      common:\n        selective_gapic_generation:\n          methods:\n          - {P}.Main.GetB\n')),
    ):
        req = request(graph(), 'transport=grpc,autogen-snippets=false,service-yaml=@svc.yaml@')
        out.append(dict(id=f'reject/{cid}', req=req.SerializeToString(), opt_files={'svc.yaml': y}, _reject=cid))
    return out


def run(ctx, only=None):
    subsets = [tuple(c) for n in range(1, len(RPCS) + 1) for c in itertools.combinations(RPCS, n)]
    jobs = [make_job(None, False)]
    for s, internal in itertools.product(subsets, (False, True)):
        if only and (only.get('g', 1) != 1 or sorted(map(list, s)) != sorted(only['subset']) or internal != only['internal']):
            continue
        jobs.append(make_job(s, internal))
    full_at = {1: 0}
    for g_ in (2, 3, 4):
        rp = RPCS4 if g_ == 4 else RPCS2
        subsets2 = [tuple(c) for n in range(1, len(rp) + 1) for c in itertools.combinations(rp, n)]
        full_at[g_] = len(jobs)
        jobs.append(make_job(None, False, g=g_))
        for s2, internal in itertools.product(subsets2, (False, True)):
            if only and (only.get('g') != g_ or sorted(map(list, s2)) != sorted(only['subset']) or internal != only['internal']):
                continue
            jobs.append(make_job(s2, internal, g=g_))
    rej = rejection_jobs() if not only else []
    ctx.log(f'{len(jobs) - 4} selective states (four graphs) + {len(rej)} rejection cells')
    results = engine.run_jobs(jobs + rej)
    fulls = {}
    for g_, at in sorted(full_at.items()):
        full = results[at]
        if not full['gen']['ok'] or full.get('obs', {}).get('import_error') or 'probe_error' in full:
            raise HarnessError(f'C16: the full library (graph {g_}) itself failed: {full.get("gen")} {full.get("obs", {}).get("import_error")} {full.get("probe_error", "")[-800:]}')
        fulls[g_] = full['obs']['calls']
    for job, res in zip(jobs, results[:len(jobs)]):
        if job['_subset'] is None:
            continue
        RPCS_ = job['_rpcs']
        full_calls = fulls[job['_g']]
        subset, internal = job['_subset'], job['_internal']
        sid = job['id']
        st = dict(subset=[list(x) for x in subset], internal=internal, g=job['_g'])
        ctx.state(1, transitions=len(subset))
        ctx.evaluated(1)

        def bad(kind, cls, detail):
            ctx.violation(f'{kind}|{cls}|internal={internal}', f'{sid}: {kind}: {detail}', st)
        if not res['gen']['ok']:
            bad('generation', f'{res["gen"]["etype"]}:{res["gen"]["where"]}|{sid}', res['gen']['emsg'][:300])
            continue
        if 'probe_error' in res:
            raise HarnessError(f'C16 probe {sid}: ' + res['probe_error'][-2000:])
        obs = res['obs']
        ctx.validated_n(1)
        if obs.get('import_error'):
            e = obs['import_error']
            bad('import', f'{e["etype"]}|{sid}', f'{e["etype"]}: {e["emsg"][:300]}')
            continue
        if obs.get('unversioned_error'):
            bad('unversioned-package', obs['unversioned_error'][:80], f'the unversioned alias package: {obs["unversioned_error"]}')
        present = set(obs['types_present'])
        listed = set(subset)
        # omit mode keeps the polling method a listed extended-operation RPC needs; in internal mode nothing is omitted and
        # every unlisted RPC (the polling method included) is merely marked internal
        exposed = set(listed) if internal else set(job['_needed'])
        if internal:
            missing = job['_all'] - present
            if missing:
                bad('internal-mode-omitted-types', sorted(missing)[0], f'{sorted(missing)}')
            for svc, rpc in RPCS_:
                info = obs['services'].get(svc, {})
                all_listed = all((s, r) in exposed for s, r in RPCS_ if s == svc)
                exp_client = ('' if all_listed else 'Base') + svc + 'Client'
                if exp_client not in info.get('clients', []):
                    bad('internal-client-name', f'{svc}', f'clients {info.get("clients")} expected {exp_client}')
                    continue
                py = names.py_method(rpc)
                exp_m = py if (svc, rpc) in exposed else '_' + py
                other = '_' + py if (svc, rpc) in exposed else py
                ms = info['methods'].get(exp_client, [])
                if exp_m not in ms or other in ms:
                    bad('internal-method-name', f'{svc}.{rpc}', f'{exp_client} offers {[m for m in ms if py in m]}, expected {exp_m}')
                # the asyncio client follows the same naming
                exp_async = exp_client.replace('Client', 'AsyncClient')
                if job['_g'] in (2, 3):
                    pass        # extended-operation methods exist on the asyncio client only in their *_unary form: not judged
                elif exp_async not in info.get('clients', []):
                    bad('internal-client-name', f'{svc}/async', f'clients {info.get("clients")} expected {exp_async}')
                else:
                    ams = info['methods'].get(exp_async, [])
                    if exp_m not in ams or other in ams:
                        bad('internal-method-name', f'{svc}.{rpc}/async', f'{exp_async} offers {[m for m in ams if py in m]}, expected {exp_m}')
        else:
            must, amb = job['_keep'], job['_amb']
            missing = must - present
            extra = present - must - amb
            if missing:
                bad('closure-missing', sorted(missing)[0], f'reachable types omitted: {sorted(missing)}')
            if extra:
                bad('closure-extra', sorted(extra)[0], f'unreachable types kept: {sorted(extra)}')
            for svc, rpc in RPCS_:
                info = obs['services'].get(svc, {})
                py = names.py_method(rpc)
                offered = any(py in ms for ms in info.get('methods', {}).values())
                if ((svc, rpc) in exposed) != offered:
                    bad('rpc-exposure', f'{svc}.{rpc}', f'expected exposed={(svc, rpc) in exposed} but offered={offered} ({info.get("clients")})')
        # differential: kept RPCs behave as in the full library
        for svc, rpc in (RPCS_ if internal else sorted(exposed)):
            key = f'{svc}.{rpc}'
            if obs['calls'].get(key) != full_calls.get(key):
                exc = (obs['calls'].get(key) or {}).get('exception')
                sig = f'{exc["etype"]}@{exc["where"]}' if exc else ('absent' if key not in obs['calls'] else 'wire')
                bad('differential', f'{key}|{sig}', f'{key}: selective {str(obs["calls"].get(key))[:300]} vs full {str(full_calls.get(key))[:300]}')
        if len(subset) < len(RPCS_):
            ctx.nontrivial_case(sid)
        ctx.outcome('judged')
        ctx.sample(dict(subset=[r for _, r in subset], internal=internal, kept_types=len(present), of=len(job['_all'])), limit=3)
    for job, res in zip(rej, results[len(jobs):]):
        ctx.state(1)
        ctx.validated_n(1)
        ctx.evaluated(1)
        if res['gen']['ok']:
            ctx.violation(f'reject/{job["_reject"]}|accepted', f'settings with {job["_reject"]} were accepted ({len(res["names"])} files emitted)',
                          dict(reject=job['_reject']))
        else:
            ctx.outcome('rejected:' + res['gen']['etype'])
    ctx.extra['bound'] = f'all {len(subsets)} non-empty RPC subsets x 2 modes; extended-operation graphs and LRO-shape graph: all 15 subsets x 2 modes each'
    ctx.assume('whether the *own fields* of a message that is only needed as the container of a kept nested type count as reachable is not specified: such types are observed, not judged')


def replay(ctx, state):
    if 'reject' in state:
        return run(ctx)
    run(ctx, only=state)
