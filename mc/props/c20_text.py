"""C20 -- comments reach docstrings intact; whitespace clean-up never changes meaning.

Three state spaces over the real functions of the working tree:
 (a) gapic.utils.lines.wrap on every text built from <=k word tokens and separators
 (b) gapic.utils.rst.rst on the same texts, embedded as the templates embed them
 (c) gapic.generator.formatter.fix_whitespace on every pre-formatter rendering of real
     generator runs and on every layout from a line grammar (length <= n, parseable)
"""
import ast
import itertools
import os
import re
import sys
import warnings

from .. import desc, edits, engine, gen
from ..report import HarnessError
from .hazards_c20 import HAZARDS, PLACES

RULE = ('(a,b) texts = all alternations word,sep,word,... with <=k words over 13 word tokens x 7 separators, x 18 '
        '(width, indent, offset) sets for wrap and x 12 (width, indent, nl) sets for rst; (c) every pre-formatter rendering '
        'captured from real generator runs + all parseable layouts of <=n lines from a 19-line grammar; non-trivial = '
        'distinct inputs on which the function changed something (output != input)')

LONG = 'L' * 45
WORDS = ['ab', 'x', 'ab-cd', LONG, '-', '+', '1.', '22.', 'end:', '"', '"""', 'b\\', 'q"']
SEPS = [' ', '  ', '\t', '\n', '\n ', '\n\n', ' \n']
WORDS_SMALL = ['ab', LONG, '-', '1.', 'end:', 'b\\']
SEPS_SMALL = [' ', '\n', '\n ', '\n\n', ' \n']
WRAP_PARAMS = [(w, i, o) for w in (8, 16, 40) for i in (0, 4) for o in (0, 3, w - 1)]
RST_PARAMS = [(w, i, nl) for w in (16, 40, 72) for i in (0, 4) for nl in (None, True)]

FEATURES = [('tab', '\t'), ('dq3', '"""'), ('backslash', '\\'), ('colon', ':'), ('list', None), ('long', LONG),
            ('blank', '\n\n'), ('nlsp', '\n '), ('sp2', '  '), ('hyphen', 'ab-cd'), ('dq', '"')]


def features(text):
    out = []
    for name, needle in FEATURES:
        if name == 'list':
            if re.search(r'(^|\s)(-|\+|\d+\.)(\s|$)', text):
                out.append(name)
        elif name == 'dq':
            if '"' in text.replace('"""', ''):
                out.append(name)
        elif needle in text:
            out.append(name)
    return '+'.join(out) or 'plain'


def texts_for(first_word, k, words, seps):
    """All texts of <= k words that start with `first_word`."""
    yield first_word
    for n in range(2, k + 1):
        for rest in itertools.product(itertools.product(seps, words), repeat=n - 1):
            yield first_word + ''.join(s + w for s, w in rest)


def _import_targets():
    gen._setup()
    warnings.simplefilter('ignore')
    import importlib
    lines = importlib.import_module("gapic.utils.lines")
    rstmod = importlib.import_module("gapic.utils.rst")
    from gapic.generator import formatter
    assert os.path.realpath(lines.__file__).startswith(os.path.realpath(gen.REPO))
    return lines.wrap, rstmod.rst, formatter.fix_whitespace


def cause_of(ans):
    if '"""' in ans:
        return 'contains-triple-quote'
    if ans.endswith('\\'):
        return 'trailing-backslash'
    return None


def split_words(s):
    return s.split()


def wrap_task(task):
    """One partition of the wrap/rst space. -> counters + failures grouped by class."""
    first_word, k, small = task
    wrap, rst, _ = _import_targets()
    words, seps = (WORDS_SMALL, SEPS_SMALL) if small else (WORDS, SEPS)
    n = changed = 0
    fails = {}
    nontriv = set()

    def fail(kind, text, params, detail, cause=None):
        # fingerprint = failure kind + root-cause class; anything outside the named classes keeps its full feature set
        if cause is None and kind in ('wrap-words', 'rst-words') and '\t' in text:
            cause = 'tab'
        key = f'{kind}|{cause or "other:" + features(text)}'
        if key not in fails or len(text) < len(fails[key]['text']):
            fails[key] = dict(kind=kind, text=text, params=params, detail=detail[:300])

    for text in texts_for(first_word, k, words, seps):
        in_words = split_words(text)
        for (w, ind, off) in WRAP_PARAMS:
            n += 1
            try:
                out = wrap(text, w, offset=off, indent=ind)
            except BaseException as e:
                fail('wrap-exception', text, [w, ind, off], f'{type(e).__name__}: {e}')
                continue
            if out != text:
                changed += 1
                nontriv.add(hash((text, w, ind, off)))
            ow = split_words(out)
            if ow != in_words:
                fail('wrap-words', text, [w, ind, off], f'words {in_words} -> {ow}')
            for li, line in enumerate(out.split('\n')):
                limit = w - off if li == 0 else w
                if len(line) > limit and len(line.split()) > 1:
                    fail('wrap-width', text, [w, ind, off], f'line {li} {line!r} has {len(line)} > {limit} columns and more than one word')
        has_markup = re.search(r'[|*`_[\]]', text) is not None
        for (w, ind, nl) in RST_PARAMS:
            n += 1
            try:
                ans = rst(text, width=w, indent=ind, nl=nl)
            except BaseException as e:
                fail('rst-exception', text, [w, ind, nl], f'{type(e).__name__}: {e}')
                continue
            if split_words(ans.rstrip('.')) != in_words and split_words(ans) != in_words:
                fail('rst-words', text, [w, ind, nl], f'words {in_words} -> {split_words(ans)}')
            if not has_markup:
                # plain text is wrapped by the generator itself: every line, the indentation it sits behind included, stays
                # within the requested width (the first line is placed behind the indentation by the template)
                for li, line in enumerate(ans.split('\n')):
                    used = len(line) + (ind if li == 0 else 0)
                    if used > w and len(line.split()) > 1:
                        fail('rst-width', text, [w, ind, nl], f'line {li} {line!r} ends at column {used} > {w} and has more than one word')
            # embedded exactly as the templates embed it
            for prefix in ('r', ''):
                if prefix == '' and '\\' in ans:
                    continue   # escape sequences are interpreted in a non-raw literal; only termination is judged
                src = f'x = {prefix}"""{ans}"""\n'
                try:
                    with warnings.catch_warnings():
                        warnings.simplefilter('ignore')
                        node = ast.parse(src).body[0].value
                    val = node.value if isinstance(node, ast.Constant) else ('<not a single string literal: ' + type(node).__name__ + '>')
                    if val != ans:
                        fail('docstring-terminated', text, [w, ind, nl, prefix], f'literal evaluates to {val!r}, embedded {ans!r}', cause_of(ans))
                except SyntaxError as e:
                    fail('docstring-terminated', text, [w, ind, nl, prefix], f'{prefix}"""...""" does not parse: {e.msg}', cause_of(ans))
    return dict(n=n, changed=changed, fails=fails, nontriv=len(nontriv))


# ----------------------------------------------------------------- fix_whitespace

LINES = ['def f():', 'class C:', '@deco', '# note', '_x = 1', 'y = 2',
         '    def g(self):', '    class D:', '    @inner', '    # inner note', '    _z = 3', '    pass',
         '        return 1', '      + 2', '', '   ', '\t', 'y = 3   ', '    """doc', '    more doc   ', '    """']


def norm_ast(src):
    t = ast.parse(src)
    for n in ast.walk(t):
        if isinstance(n, ast.Constant) and isinstance(n.value, str):
            n.value = re.sub(r'\s+', '', n.value)
    return ast.dump(t)


def only_whitespace_deleted(src, out):
    i = 0
    for ch in src:
        if i < len(out) and out[i] == ch:
            i += 1
        elif not ch.isspace():
            return False
    return i == len(out) or out[i:].isspace() and False


def judge_fix(fix, src, is_python, label):
    """-> list of (kind, detail)"""
    res = []
    try:
        out = fix(src)
    except BaseException as e:
        return [('fix-exception', f'{type(e).__name__}: {e}')], None
    if not (out.endswith('\n') and not out.endswith('\n\n')) and out.strip():
        res.append(('fix-final-newline', repr(out[-10:])))
    try:
        if fix(out) != out:
            res.append(('fix-not-idempotent', ''))
    except BaseException as e:
        res.append(('fix-exception', f'second application: {type(e).__name__}: {e}'))
    # whitespace-only deletion, except that one final "\n" may be added
    body = out[:-1] if out.endswith('\n') else out
    j = 0
    ok = True
    for ch in src:
        if j < len(body) and body[j] == ch:
            j += 1
        elif not ch.isspace():
            ok = False
            break
    if not ok or j != len(body):
        res.append(('fix-not-whitespace-deletion', f'output is not the input with whitespace deleted'))
    if is_python:
        try:
            a0 = norm_ast(src)
        except SyntaxError:
            a0 = None
        if a0 is not None:
            try:
                a1 = norm_ast(out)
                if a0 != a1:
                    res.append(('fix-ast-changed', ''))
            except SyntaxError as e:
                res.append(('fix-ast-broken', f'output does not parse: {e.msg} line {e.lineno}'))
    return res, out


def layout_features(lines_):
    f = []
    s = '\n'.join(lines_)
    if re.search(r'\n\s*\n\s*\n\s+(class|def|@|#|_)', s):
        f.append('2blank-before-indented-def')
    if re.search(r'\n\s*\n\s*\n(class|def|@|#|_)', s):
        f.append('2blank-before-top-def')
    if '"""' in s:
        f.append('docstring')
    if '      + 2' in lines_:
        f.append('continuation')
    if '\t' in lines_:
        f.append('tab-line')
    return '+'.join(f) or 'plain'


def layout_task(task):
    first, n = task
    _, _, fix = _import_targets()
    count = parsed = changed = 0
    fails = {}
    for m in range(1, n + 1):
        for rest in itertools.product(range(len(LINES)), repeat=m - 1):
            idx = (first,) + rest
            ls = [LINES[i] for i in idx]
            src = '\n'.join(ls) + '\n'
            count += 1
            try:
                ast.parse(src)
            except SyntaxError:
                continue
            parsed += 1
            res, out = judge_fix(fix, src, True, None)
            if out is not None and out != src:
                changed += 1
            for kind, detail in res:
                key = f'{kind}|{layout_features(ls)}'
                if key not in fails or len(src) < len(fails[key]['text']):
                    fails[key] = dict(kind=kind, text=src, params=list(idx), detail=detail)
    return dict(count=count, parsed=parsed, changed=changed, fails=fails)


def capture_task(task):
    """Generate one real state with fix_whitespace wrapped; judge every captured rendering."""
    history, param = task
    _, _, fix = _import_targets()
    from gapic.generator import formatter
    captured = []
    orig = formatter.fix_whitespace

    def spy(code):
        captured.append(code)
        return orig(code)

    formatter.fix_whitespace = spy
    try:
        req = edits.build(history, param)
        desc.gate(req)
        g = gen.generate_inproc(req.SerializeToString())
    finally:
        formatter.fix_whitespace = orig
    if not g['ok']:
        return dict(error=f'{g["etype"]}: {g["emsg"][:200]}', n=0, fails={}, changed=0, python=0)
    from google.protobuf.compiler import plugin_pb2
    res = plugin_pb2.CodeGeneratorResponse.FromString(g['response'])
    outs = {f.content: f.name for f in res.file}
    fails = {}
    changed = python = 0
    for src in captured:
        try:
            name = outs.get(orig(src), '?')
        except BaseException:
            name = '?'
        is_py = name.endswith('.py')
        python += is_py
        r, out = judge_fix(orig, src, is_py, name)
        if out != src:
            changed += 1
        for kind, detail in r:
            tmpl = re.sub(r'[a-z0-9_]+(?=\.py$)', '*', name.split('/')[-1]) if name != '?' else '?'
            key = f'{kind}|real:{tmpl}'
            if key not in fails:
                fails[key] = dict(kind=kind, text=f'<rendering of {name}, {len(src)} chars>', params=[history, param, name], detail=detail)
    return dict(n=len(captured), fails=fails, changed=changed, python=python)


# ------------------------------------------------------------ comments on API elements

def doc_texts():
    """Benign-but-awkward comment texts (no triple quote, tab or trailing backslash: D9-D11 are judged on the functions)."""
    words = ['ab', 'x', 'c-d', LONG, '-', '+', '1.', '22.', 'end:', 'q"', 'mid\\dle', 'Zoë', '100%', '{brace}', '<tag>']
    seps = [' ', '  ', '\n', '\n ', '\n\n', ' \n']
    out = []
    for w in words:
        out.append(w)
    for a_, s_, b_ in itertools.product(words, seps, words):
        out.append(a_ + s_ + b_)
    for a_, b_, c_ in itertools.product(words[:6], words[6:12], words[3:9]):
        out.append(f'{a_} {b_}\n{c_}')
    return out


def doc_job(offset=0, hazard=None):
    """One commented baseline library.  hazard=None: the mixed word texts, one per element; hazard=(id, text): that text on
    every element (so every element kind -- every embedding site -- meets it), placements rotating per element."""
    from .. import apis
    from ..ref import names as refnames
    texts = doc_texts()
    # the baseline API plus a request/response pair declared in *another* file, and messages used before they are declared
    a_ = edits.Api()
    edits.EDITS['request_from_other_file'](a_)
    edits.EDITS['nested_deep'](a_)
    edits.EDITS['dep_pkg_types'](a_)          # an RPC whose request and response types come from a dependency package
    # fields declared in an order that differs from their numbers; an enum whose values are declared out of numeric order
    a_.msg(desc.message('Shuffled', [desc.field('name', 1, 'string'), desc.field('author', 4, 'string'), desc.field('title', 2, 'string'),
                                     desc.field('page_count', 3, 'int32'), desc.field('mood', 5, 'enum:.' + a_.main.package + '.Mood')]))
    a_.main.enum_type.append(desc.enum('Mood', ('MOOD_UNSPECIFIED', 0), ('GLAD', 2), ('CALM', 1), ('GRIM', 3)))
    comments, kinds, placed = {}, {}, {}
    i = 0
    for f in a_.files:
        per_file = {}
        for kind, full, path in desc.element_paths(f):
            if kind == 'enum_value' and full.endswith('_UNSPECIFIED'):
                continue
            i += 1
            if kind == 'enum' and (i + offset) % 2:
                continue        # an enum without a comment of its own whose values are commented
            comments[full] = texts[(i * 37 + offset * 131) % len(texts)] if hazard is None else hazard[1]
            placed[full] = PLACES[(i + offset) % len(PLACES)]
            kinds[full] = kind
            per_file[full] = (' ' + comments[full] + '\n', placed[full])
        desc.add_comments(f, per_file)
    # the dependency package's messages carry comments too (protoc hands every file over with its source info); they are not
    # emitted as classes, but the docstrings of the methods that take / return them quote them
    for f in a_.dep_files:
        per_file = {}
        for kind, full, path in desc.element_paths(f):
            if kind != 'message':
                continue
            i += 1
            comments[full] = texts[(i * 37 + offset * 131) % len(texts)] if hazard is None else hazard[1]
            placed[full] = 'leading'
            kinds[full] = 'dep-message'
            per_file[full] = (' ' + comments[full] + '\n', 'leading')
        desc.add_comments(f, per_file)
    req = a_.request('transport=grpc+rest')
    desc.gate(req)
    jid = f'docwords{offset}' if hazard is None else f'dochazard:{hazard[0]}/{offset}'
    return dict(id=jid, req=req.SerializeToString(), probe='mc.probes.docwords', pb2_files=[f.SerializeToString() for f in a_.dep_files],
                probe_args=dict(package=refnames.import_package(apis.P), proto_package=apis.P, comments=comments, kinds=kinds,
                                places=placed)), len(texts)


# ------------------------------------------------------------------------ driver

def run(ctx):
    k = 4 if ctx.thorough else 3
    tasks = [(w, k, False) for w in WORDS]
    tasks += [(w, k + 1, True) for w in WORDS_SMALL]
    ctx.log(f'wrap/rst: {len(tasks)} partitions, <= {k} words full alphabet, <= {k + 1} words reduced alphabet')
    n_layout = 6 if ctx.thorough else 5
    ltasks = [(i, n_layout) for i in range(len(LINES))]
    ok_edits = [n for n in edits.EDIT_NAMES if n not in ('subpkg_service', 'recursive_oneof_first')]
    ctasks = []
    for tr in ('grpc', 'rest', 'grpc+rest'):
        for tp in ('', ',python-gapic-templates=ads-templates,old-naming'):
            ctasks.append(([], f'transport={tr},metadata{tp}'))
            ctasks.append((ok_edits if not tp else [e for e in ok_edits if e not in ('subpkg_types', 'dep_pkg_types', 'iam_types', 'no_default_host', 'same_basename_imports')],
                           f'transport={tr},metadata{tp}'))
    pool = engine.pool()
    djobs = [doc_job(k)[0] for k in range(16 if ctx.thorough else 8)]
    djobs += [doc_job(o, h)[0] for h in HAZARDS for o in ((0, 1, 2, 3) if ctx.thorough else (HAZARDS.index(h) % 4,))]
    f_docs = [pool.submit(engine.run_job, j, engine.scratch_root()) for j in djobs]
    f_wrap = [pool.submit(wrap_task, t) for t in tasks]
    f_lay = [pool.submit(layout_task, t) for t in ltasks]
    f_cap = [pool.submit(capture_task, t) for t in ctasks]
    tot = dict(n=0, changed=0)
    allfails = {}
    for t, f in zip(tasks, f_wrap):
        r = f.result()
        tot['n'] += r['n']
        tot['changed'] += r['changed']
        for key, v in r['fails'].items():
            if key not in allfails or len(v['text']) < len(allfails[key]['text']):
                allfails[key] = dict(v, space='wrap/rst')
    ctx.log(f'wrap/rst: {tot["n"]} evaluations, {tot["changed"]} changed the text')
    ctx.state(tot['n'] // (len(WRAP_PARAMS) + len(RST_PARAMS)), transitions=tot['n'])
    ctx.evaluated(tot['n'])
    lay = dict(count=0, parsed=0, changed=0)
    for t, f in zip(ltasks, f_lay):
        r = f.result()
        for q in lay:
            lay[q] += r[q]
        for key, v in r['fails'].items():
            if key not in allfails or len(v['text']) < len(allfails[key]['text']):
                allfails[key] = dict(v, space='layout')
    ctx.log(f'layouts: {lay["count"]} enumerated, {lay["parsed"]} parseable, {lay["changed"]} changed by the formatter')
    ctx.state(lay['parsed'], transitions=lay['count'])
    ctx.evaluated(lay['parsed'])
    cap = dict(n=0, changed=0, python=0)
    for t, f in zip(ctasks, f_cap):
        r = f.result()
        if r.get('error'):
            raise HarnessError(f'C20 capture state {t} failed to generate: {r["error"]}')
        for q in cap:
            cap[q] += r[q]
        for key, v in r['fails'].items():
            allfails.setdefault(key, dict(v, space='captured'))
    ctx.log(f'captured renderings: {cap["n"]} ({cap["python"]} python), {cap["changed"]} changed by the formatter')
    ctx.state(cap['n'])
    ctx.evaluated(cap['n'])
    checked = 0
    for dj, f_doc in zip(djobs, f_docs):
        dres = f_doc.result()
        tag = dj['id'].split('/')[0]
        if not dres['gen']['ok']:
            allfails[f'docwords-generation|{tag}'] = dict(kind='docwords-generation', text=dj['id'], params=[dj['id']], space='docstrings',
                                                          detail=f'{dres["gen"]["etype"]}: {dres["gen"]["emsg"][:200]}')
        elif 'probe_error' in dres:
            raise HarnessError('C20 docwords probe: ' + dres['probe_error'][-1500:])
        elif dres['obs'].get('import_error'):
            e = dres['obs']['import_error']
            allfails[f'docwords-import|{tag}|{e["etype"]}@{e["where"].split(":")[0]}'] = dict(
                kind='docwords-import', text=dj['id'], params=[dj['id']], space='docstrings', detail=f'{e["etype"]}: {e["emsg"][:200]} at {e["where"]}')
        else:
            dobs = dres['obs']
            checked += dobs['checked']
            ctx.state(dobs['checked'])
            ctx.evaluated(dobs['checked'])
            for f_ in dobs['failures']:
                cls = features(f_['text']) if tag.startswith('docwords') else tag
                allfails[f'docstring-words|{f_["kind"]}|{f_.get("place", "leading")}|{cls}'] = dict(
                    kind='docstring-words', text=f_['text'], params=[dj['id'], f_['element']], space='docstrings', detail=f_['what'] + ': ' + f_.get('doc', '')[:150])
    ctx.log(f'docstrings: {checked} commented API elements checked')
    ctx.extra['commented_elements_checked'] = checked
    if checked < 200 and not allfails:
        raise HarnessError('C20 docwords collapsed')
    ctx.validated = ctx.states
    for i in range(tot['changed'] + lay['changed'] + cap['changed']):
        if i >= 3:
            break
    ctx.nontrivial = set(range(tot['changed'] + lay['changed'] + cap['changed']))
    ctx.outcome('wrap/rst evaluations', tot['n'])
    ctx.outcome('layouts parseable', lay['parsed'])
    ctx.outcome('captured renderings', cap['n'])
    ctx.sample(dict(space='wrap', text='ab\n -\n\nend: ' + LONG[:6] + '...', params=dict(width=16, indent=4, offset=3)))
    ctx.sample(dict(space='layout', lines=['class C:', '    _z = 3', '', '', '    def g(self):', '        return 1']))
    ctx.sample(dict(space='captured', what='every template rendering of baseline L and the max state, 3 transports x 2 template sets, before fix_whitespace'))
    if tot['n'] < 100000 or lay['parsed'] < 1000 or cap['n'] < 300 and not ctx.violations:
        raise HarnessError(f'C20 exploration collapsed: {tot} {lay} {cap}')
    for key, v in sorted(allfails.items()):
        ctx.violation(key, f'[{v["space"]}] {v["kind"]} on {v["text"]!r} params={v["params"]}: {v["detail"]}',
                      dict(space=v['space'], text=v['text'], params=v['params'], kind=v['kind']))
    ctx.extra['bound'] = f'words<={k} (full alphabet), <={k + 1} (reduced); layouts <= {n_layout} lines; captured states: {len(ctasks)}'
    ctx.assume('pandoc branch of rst() runs against an identity stand-in: only embedding safety, not wording, is judged there')


def replay(ctx, state):
    wrap, rst, fix = _import_targets()
    if state['space'] == 'layout':
        res, out = judge_fix(fix, state['text'], True, None)
        for kind, detail in res:
            ctx.violation(f'{kind}|{layout_features(state["text"].split(chr(10))[:-1])}', detail, state)
    elif state['space'] == 'wrap/rst':
        r = wrap_task_single(state['text'])
        for key, v in r.items():
            ctx.violation(key, v['detail'], state)
    else:
        r = capture_task((state['params'][0], state['params'][1]))
        for key, v in r['fails'].items():
            ctx.violation(key, v['detail'], state)


def wrap_task_single(text):
    """Re-run the wrap/rst oracle on one text."""
    global texts_for
    saved = texts_for
    try:
        texts_for = lambda *a: iter([text])
        return wrap_task(('', 1, False))['fails']
    finally:
        texts_for = saved
