"""C07 -- pagination: classification around the AIP-4233 field rules, and every server
page history (breadth-first, depth-bounded) replayed on a fresh pager with the
invariant evaluated after every page."""
import itertools

from .. import desc, engine
from ..desc import field, message, enum, method, service, file, request, map_field
from ..ref import names
from ..report import HarnessError

RULE = ('(a) classification cells = page_token kind x size-field kind x next_page_token kind x repeated-field layout x '
        'item location (complete product), judged by the AIP-4233 predicate restated in the property; '
        '(b) histories = all server page sequences (items per page 0..3, has-next) up to the depth bound for '
        '{message,scalar,map} items x {sync gRPC, asyncio gRPC, REST}, each replayed on a fresh pager, invariant '
        'checked after every page; non-trivial = distinct (kind, client, history) with >=2 fetches or paged cells')

P = 'acme.pg.v1'
Q = lambda n: f'.{P}.{n}'

PAGE_TOKEN = {'absent': None, 'string': 'string', 'bytes': 'bytes', 'int32': 'int32'}
NEXT_TOKEN = {'absent': None, 'string': 'string', 'bytes': 'bytes'}
# name -> (fields [(name, type)], verdict: True paged-capable / False / None = not judged)
SIZE = {
    'none': ([], False),
    'page_size:int32': ([('page_size', 'int32')], True),
    'page_size:int64': ([('page_size', 'int64')], True),
    'page_size:uint32': ([('page_size', 'uint32')], True),
    'page_size:sint64': ([('page_size', 'sint64')], True),
    'page_size:string': ([('page_size', 'string')], False),
    'page_size:double': ([('page_size', 'double')], False),
    'page_size:message': ([('page_size', Q('Item'))], False),
    'page_size:Int32Value': ([('page_size', '.google.protobuf.Int32Value')], None),   # statement names wrappers for max_results only
    'max_results:int32': ([('max_results', 'int32')], True),
    'max_results:uint32': ([('max_results', 'uint32')], True),
    'max_results:Int32Value': ([('max_results', '.google.protobuf.Int32Value')], True),
    'max_results:UInt32Value': ([('max_results', '.google.protobuf.UInt32Value')], True),
    'max_results:StringValue': ([('max_results', '.google.protobuf.StringValue')], False),
    'max_results:string': ([('max_results', 'string')], False),
    'both:int32': ([('page_size', 'int32'), ('max_results', 'int32')], True),
    'both:max_results-string': ([('page_size', 'int32'), ('max_results', 'string')], None),  # ambiguous under the statement
    'both:page_size-string': ([('page_size', 'string'), ('max_results', 'int32')], True),     # the legacy field alone qualifies
}
# layout -> list of (name, kind); kind in msg, scalar, map, single
LAYOUT = {
    'none': [('single', 'single')],
    'msg': [('items', 'msg')],
    'scalar': [('names', 'scalar')],
    'map': [('index', 'map')],
    'scalar-then-msg': [('names', 'scalar'), ('items', 'msg')],
    'msg-then-scalar': [('items', 'msg'), ('names', 'scalar')],
    'single-then-msg': [('single', 'single'), ('items', 'msg')],
    # declared first, numbered last: "first" is the order of the fields in the message (the descriptor order)
    'msg#9-then-scalar#1': [('items', 'msg', 9), ('names', 'scalar', 1)],
    'scalar#8-then-map#2-then-msg#1': [('names', 'scalar', 8), ('index', 'map', 2), ('items', 'msg', 1)],
}
ITEM_LOC = {'same': Q('Item'), 'other': Q('OtherItem')}


def cell_list():
    out = []
    for pt, sz, nt, lay, loc in itertools.product(PAGE_TOKEN, SIZE, NEXT_TOKEN, LAYOUT, ITEM_LOC):
        out.append(dict(pt=pt, sz=sz, nt=nt, lay=lay, loc=loc))
    return out


def expected_paged(c):
    ok_size = SIZE[c['sz']][1]
    if ok_size is None:
        return None
    has_rep = any(x[1] != 'single' for x in LAYOUT[c['lay']])
    return bool(c['pt'] == 'string' and c['nt'] == 'string' and ok_size and has_rep)


def build_classification(group):
    """One library for one (page_token kind, next_page_token kind) group."""
    pt, nt = group
    other = file('acme/pg/v1/other.proto', P, messages=[message('OtherItem', [field('name', 1, 'string')])])
    msgs = [message('Item', [field('name', 1, 'string')])]
    meths, cells = [], []
    i = 0
    for sz, lay, loc in itertools.product(SIZE, LAYOUT, ITEM_LOC):
        i += 1
        rq, rs = f'Rq{i}', f'Rs{i}'
        fs = [field('parent', 1, 'string')]
        n = 2
        if PAGE_TOKEN[pt]:
            fs.append(field('page_token', n, PAGE_TOKEN[pt])); n += 1
        for fname, ftype in SIZE[sz][0]:
            fs.append(field(fname, n, ftype)); n += 1
        msgs.append(message(rq, fs))
        rf, nested, n = [], [], 1
        first_rep = None
        for ent in LAYOUT[lay]:
            fname, kind = ent[:2]
            if len(ent) > 2:
                n = ent[2]
            if kind == 'single':
                rf.append(field(fname, n, ITEM_LOC[loc]))
            elif kind == 'msg':
                rf.append(field(fname, n, ITEM_LOC[loc], repeated=True))
            elif kind == 'scalar':
                rf.append(field(fname, n, 'string', repeated=True))
            else:
                mf, me = map_field(Q(rs), fname, n, 'string', ITEM_LOC[loc])
                rf.append(mf); nested.append(me)
            if kind != 'single' and first_rep is None:
                first_rep = (fname, kind)
            n += 1
        if NEXT_TOKEN[nt]:
            rf.append(field('next_page_token', max([f_.number for f_ in rf] + [0]) + 1, NEXT_TOKEN[nt]))
        msgs.append(message(rs, rf, nested=nested))
        meths.append(method(f'List{i}', Q(rq), Q(rs)))
        c = dict(pt=pt, sz=sz, nt=nt, lay=lay, loc=loc)
        cells.append(dict(id=f'{pt}/{sz}/{nt}/{lay}/{loc}', rpc=f'List{i}', py=f'list{i}', req=Q(rq), resp=Q(rs),
                          expected=expected_paged(c), first_rep=first_rep,
                          layout=[list(x[:2]) for x in LAYOUT[lay]], item=ITEM_LOC[loc]))
    main = file('acme/pg/v1/svc.proto', P, messages=msgs, services=[service('Pg', meths)])
    std = desc.std_dep_names()
    other.dependency.extend(std)
    main.dependency.extend(std + [other.name])
    req = request([other, main], 'transport=grpc,autogen-snippets=false')
    desc.gate(req)
    return req, cells


ISOLATED = [('msg', 'other'), ('map', 'other'), ('map', 'same'), ('enum', 'same'), ('enum', 'other'), ('enum-then-msg', 'same'),
            ('scalar', 'same'), ('map-enum', 'other'),
            # token fields declared proto3-optional (each sits in a synthetic oneof): still string fields
            ('msg+optional-tokens', 'same'), ('msg+optional-page_token', 'same'), ('msg+optional-next_page_token', 'other')]


def build_isolated(lay, loc):
    """A library with exactly one paginated RPC, so that nothing else asks for the imports its pager needs.
    Layout kinds beyond the classification product: repeated enum items, map with enum values."""
    from ..desc import enum
    other = file('acme/pg/v1/other.proto', P, messages=[message('OtherItem', [field('name', 1, 'string')])],
                 enums=[enum('OtherShade', 'OTHER_SHADE_UNSPECIFIED', 'OTHER_DARK', 'OTHER_LIGHT')])
    item = ITEM_LOC[loc]
    shade = Q('Shade') if loc == 'same' else Q('OtherShade')
    rf, nested, layout = [], [], []
    lay, _, opt = lay.partition('+')
    if lay == 'msg':
        rf.append(field('items', 1, item, repeated=True)); layout.append(['items', 'msg'])
    elif lay == 'scalar':
        rf.append(field('names', 1, 'string', repeated=True)); layout.append(['names', 'scalar'])
    elif lay == 'map':
        mf, me = map_field(Q('Rs'), 'index', 1, 'string', item)
        rf.append(mf); nested.append(me); layout.append(['index', 'map'])
    elif lay == 'map-enum':
        mf, me = map_field(Q('Rs'), 'shades', 1, 'string', 'enum:' + shade)
        rf.append(mf); nested.append(me); layout.append(['shades', 'map-enum'])
    elif lay == 'enum':
        rf.append(field('shades', 1, 'enum:' + shade, repeated=True)); layout.append(['shades', 'enum'])
    elif lay == 'enum-then-msg':
        rf.append(field('shades', 1, 'enum:' + shade, repeated=True)); layout.append(['shades', 'enum'])
        rf.append(field('items', 2, item, repeated=True)); layout.append(['items', 'msg'])
    rf.append(field('next_page_token', 5, 'string', optional=opt in ('optional-tokens', 'optional-next_page_token')))
    msgs = [message('Item', [field('name', 1, 'string')]),
            message('Rq', [field('parent', 1, 'string'), field('page_token', 2, 'string', optional=opt in ('optional-tokens', 'optional-page_token')),
                           field('page_size', 3, 'int32')]),
            message('Rs', rf, nested=nested)]
    main = file('acme/pg/v1/svc.proto', P, messages=msgs, enums=[enum('Shade', 'SHADE_UNSPECIFIED', 'DARK', 'LIGHT')],
                services=[service('Pg', [method('ListIt', Q('Rq'), Q('Rs'))])])
    std = desc.std_dep_names()
    other.dependency.extend(std)
    main.dependency.extend(std + [other.name])
    req = request([other, main], 'transport=grpc,autogen-snippets=false')
    desc.gate(req)
    cell = dict(id=f'isolated/{lay}{"+" + opt if opt else ""}/{loc}', rpc='ListIt', py='list_it', req=Q('Rq'), resp=Q('Rs'), expected=True,
                first_rep=layout[0], layout=layout, item=item)
    return req, [cell]


def build_histories():
    mf, me = map_field(Q('ListMapResponse'), 'index', 1, 'string', Q('Item'))
    rq = lambda n: message(n, [field('parent', 1, 'string'), field('page_size', 2, 'int32'),
                               field('page_token', 3, 'string'), field('filter', 4, 'string'),
                               field('order', 5, 'string', repeated=True)])
    msgs = [message('Item', [field('name', 1, 'string'), field('n', 2, 'int32')]),
            rq('ListMsgRequest'), rq('ListScalarRequest'), rq('ListMapRequest'),
            message('ListMsgResponse', [field('items', 1, Q('Item'), repeated=True), field('next_page_token', 2, 'string'),
                                        field('total', 3, 'int32'), field('unreachable', 4, 'string', repeated=True)]),
            message('ListScalarResponse', [field('total', 1, 'int32'), field('names', 2, 'string', repeated=True),
                                           field('next_page_token', 3, 'string')]),
            message('ListMapResponse', [mf, field('next_page_token', 2, 'string'), field('total', 3, 'int32')], nested=[me])]
    svc = service('Hist', [
        method('ListMsg', Q('ListMsgRequest'), Q('ListMsgResponse'), http=('get', '/v1/{parent=shelves/*}/msgs'), sigs=['parent']),
        method('ListScalar', Q('ListScalarRequest'), Q('ListScalarResponse'), http=('get', '/v1/{parent=shelves/*}/scalars')),
        method('ListMap', Q('ListMapRequest'), Q('ListMapResponse'), http=('post', '/v1/{parent=shelves/*}/maps', '*')),
    ])
    f = file('acme/pg/v1/hist.proto', P, messages=msgs, services=[svc])
    req = request([f], 'transport=grpc+rest,autogen-snippets=false')
    desc.gate(req)
    return req


KINDS = {'msg': ('ListMsg', 'list_msg', 'items'), 'scalar': ('ListScalar', 'list_scalar', 'names'),
         'map': ('ListMap', 'list_map', 'index')}
CLIENTS = ['sync', 'asyncio', 'rest']


def jobs_for(ctx, only=None):
    jobs = []
    pkg = names.import_package(P)
    for g in itertools.product(PAGE_TOKEN, NEXT_TOKEN):
        if only and only.get('kind') != 'classification':
            break
        if only and tuple(only['group']) != g:
            continue
        req, cells = build_classification(g)
        if only and only.get('cells'):
            cells = [c for c in cells if c['id'] in only['cells']]
        jobs.append(dict(id=f'cls/{g[0]}/{g[1]}', req=req.SerializeToString(), probe='mc.probes.paging',
                         probe_args=dict(mode='classify', package=pkg, proto_package=P, cells=cells), _kind='cls',
                         _group=g, _cells=cells))
    for lay, loc in ISOLATED:
        if only and only.get('kind') != 'classification':
            break
        if only and tuple(only['group']) != ('isolated', f'{lay}/{loc}'):
            continue
        req, cells = build_isolated(lay, loc)
        jobs.append(dict(id=f'cls/isolated/{lay}/{loc}', req=req.SerializeToString(), probe='mc.probes.paging',
                         probe_args=dict(mode='classify', package=pkg, proto_package=P, cells=cells), _kind='cls',
                         _group=('isolated', f'{lay}/{loc}'), _cells=cells))
    depth = (6 if ctx.thorough else 5)
    hreq = build_histories().SerializeToString()
    for kind, client in itertools.product(KINDS, CLIENTS):
        if only and (only.get('kind') != 'history' or only['item_kind'] != kind or only['client'] != client):
            continue
        rpc, py, fld = KINDS[kind]
        jobs.append(dict(id=f'hist/{kind}/{client}', req=hreq, probe='mc.probes.paging',
                         probe_args=dict(mode='history', package=pkg, proto_package=P, kind=kind, client=client,
                                         rpc=rpc, py=py, field=fld, depth=depth, max_items=4 if ctx.thorough else 3,
                                         only_history=(only or {}).get('history'), seed=ctx.seed),
                         _kind='hist', _item_kind=kind, _client=client))
    # tokens are opaque: a cursor-style server may hand out the *same* non-empty token page after page
    for client in CLIENTS:
        if only and (only.get('kind') != 'history' or only['item_kind'] != 'msg/constant-token' or only['client'] != client):
            continue
        rpc, py, fld = KINDS['msg']
        jobs.append(dict(id=f'hist/msg/{client}/constant-token', req=hreq, probe='mc.probes.paging',
                         probe_args=dict(mode='history', package=pkg, proto_package=P, kind='msg', client=client, rpc=rpc, py=py, field=fld,
                                         depth=4, max_items=2, tokens='constant', only_history=(only or {}).get('history'), seed=ctx.seed),
                         _kind='hist', _item_kind='msg/constant-token', _client=client))
    return jobs


def run(ctx, only=None):
    jobs = jobs_for(ctx, only)
    ctx.log(f'{len(jobs)} jobs')
    results = engine.run_jobs(jobs)
    for job, res in zip(jobs, results):
        if not res['gen']['ok']:
            ctx.violation(f'{job["id"]}|generation:{res["gen"]["etype"]}:{res["gen"]["where"]}',
                          f'generator failed: {res["gen"]["emsg"][:300]}',
                          dict(kind='classification', group=list(job['_group'])) if job['_kind'] == 'cls' else dict(kind='generation', job=job['id']))
            continue
        if 'probe_error' in res:
            raise HarnessError(f'C07 probe {job["id"]}: ' + res['probe_error'][-2000:])
        obs = res['obs']
        if obs.get('import_error'):
            e = obs['import_error']
            ctx.violation(f'{job["id"]}|import:{e["etype"]}:{e["where"]}', f'library does not import: {e["emsg"]}',
                          dict(kind='classification', group=list(job['_group'])) if job['_kind'] == 'cls' else dict(kind='generation', job=job['id']))
            continue
        if job['_kind'] == 'cls':
            cells = {c['id']: c for c in job['_cells']}
            ctx.state(len(cells))
            ctx.validated_n(len(cells))
            for cid, o in obs['cells'].items():
                exp = cells[cid]['expected']
                ctx.evaluated(1)
                ctx.outcome(('paged' if o['paged'] else 'plain') + ('' if exp is not None else '-unjudged'))
                if o['paged']:
                    ctx.nontrivial_case(cid)
                st = dict(kind='classification', group=list(job['_group']), cells=[cid])
                if o.get('error'):
                    ctx.violation(f'cls|{cid}|error:{o["error"]["etype"]}', f'{cid}: call failed: {o["error"]}', st)
                    continue
                if exp is None:
                    continue
                if o['paged'] != exp:
                    ctx.violation(f'cls|{cid}|classification', f'{cid}: exposed as {"paginated" if o["paged"] else "plain"}, '
                                  f'AIP-4233 predicate says {"paginated" if exp else "plain"}', st)
                elif exp and not o['items_ok']:
                    ctx.violation(f'cls|{cid}|item-field', f'{cid}: pager yields {o["got_items"]} expected first repeated field '
                                  f'{cells[cid]["first_rep"]} = {o["exp_items"]}', st)
            ctx.sample(dict(classification_cell=next(iter(obs['cells'].items()))), limit=2)
        else:
            n = obs['histories']
            ctx.state(n, transitions=obs['transitions'])
            ctx.validated_n(n)
            ctx.evaluated(obs['fetches'])
            for k in obs['nontrivial']:
                ctx.nontrivial_case(f'{job["id"]}|{k}')
            for k, v in obs['outcomes'].items():
                ctx.outcome(k, v)
            for s in obs['samples']:
                ctx.sample(dict(history_job=job['id'], **s), limit=4)
            exp_n = sum((job['probe_args']['max_items'] + 1) ** d for d in range(1, job['probe_args']['depth'] + 1))
            if not only and n != exp_n:
                raise HarnessError(f'{job["id"]}: {n} histories, expected {exp_n}')
            for f in obs['failures']:
                ctx.violation(f'hist|{job["_item_kind"]}|{job["_client"]}|{f["kind"]}',
                              f'{job["id"]} history={f["history"]} mode={f["mode"]} at page {f["page"]}: {f["kind"]}: {f["detail"]}',
                              dict(kind='history', item_kind=job['_item_kind'], client=job['_client'], history=f['history']))
    _assumptions(ctx)
    ctx.extra['bound'] = f'page histories depth<={6 if ctx.thorough else 5}, items per page 0..{4 if ctx.thorough else 3}; classification: complete product ({len(cell_list())} cells)'


def _assumptions(ctx):
    ctx.assume('"the first repeated response field" is read as the first in the order of the fields in the message descriptor '
               '(declaration order), also where the field numbers say otherwise')


def replay(ctx, state):
    if state.get('kind') == 'generation':
        run(ctx)
    else:
        run(ctx, only=state)
