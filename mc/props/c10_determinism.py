"""C10 -- generation is a pure, deterministic function of the request.

For each order-hostile request every perturbation of the environment (hash seed, working
directory, allocator, environment size, wall clock) is a fresh generator process; all
responses for one request must be byte-identical.  The seed set is a coverage target:
seeds are added until every unordered container of the schema model with <= 3 elements has
been observed in all of its n! iteration orders (>= 6 orders for larger ones).
"""
import hashlib
import itertools
import json
import math
import os
import subprocess
import tempfile

from .. import apis, desc, edits, engine, gen
from ..desc import field, message, enum, method, service, file, request, map_field, EMPTY, OPERATION
from ..report import HarnessError

RULE = ('schedules = fresh generator processes per (request, PYTHONHASHSEED | cwd | allocator | environment size | clock); '
        'seeds are extended until every <=3-element unordered container on the schema model has shown all n! orders '
        '(>=6 for larger); oracle = byte equality of all responses of one request; non-trivial = distinct (request, '
        'perturbation) runs whose container orders differ from the seed-0 run')

P = 'acme.det.v1'
Q = lambda n: f'.{P}.{n}'
DOM = 'acme.googleapis.com'


def hostile_resources():
    """Several resources used by one service, incl. two with the same short type name."""
    msgs = [
        message('Alpha', [field('name', 1, 'string')], resource=(f'{DOM}/Alpha', 'alphas/{alpha}')),
        message('Beta', [field('name', 1, 'string')], resource=(f'{DOM}/Beta', 'betas/{beta}')),
        message('Gamma', [field('name', 1, 'string')], resource=(f'{DOM}/Gamma', 'gammas/{gamma}')),
        message('ThingA', [field('name', 1, 'string')], resource=('a.example.com/Thing', 'as/{a}/things/{thing}')),
        message('ThingB', [field('name', 1, 'string')], resource=('b.example.com/Thing', 'bs/{b}/things/{thing}')),
        message('GetRequest', [field('alpha', 1, 'string', ref=f'{DOM}/Alpha'), field('beta', 2, 'string', ref=f'{DOM}/Beta'),
                               field('gamma', 3, 'string', ref=f'{DOM}/Gamma'), field('ta', 4, 'string', ref='a.example.com/Thing'),
                               field('tb', 5, 'string', ref='b.example.com/Thing'), field('d1', 6, 'string', ref=f'{DOM}/Delta'),
                               field('d2', 7, 'string', ref=f'{DOM}/Epsilon'), field('d3', 8, 'string', ref=f'{DOM}/Zeta')]),
        message('GetResponse', [field('alpha', 1, Q('Alpha')), field('beta', 2, Q('Beta')), field('gamma', 3, Q('Gamma')),
                                field('ta', 4, Q('ThingA')), field('tb', 5, Q('ThingB'))]),
    ]
    svc = service('Res', [method('Get', Q('GetRequest'), Q('GetResponse'), http=('get', '/v1/x')),
                          method('Get2', Q('GetRequest'), Q('GetResponse'), http=('get', '/v1/y'))])
    f = file('acme/det/v1/res.proto', P, messages=msgs, services=[svc],
             resource_defs=[(f'{DOM}/Delta', 'deltas/{delta}'), (f'{DOM}/Epsilon', 'epsilons/{epsilon}'),
                            (f'{DOM}/Zeta', 'zetas/{zeta}')])
    return request([f], 'transport=grpc+rest,metadata'), None


def hostile_services():
    """Several services with equal method names, several imports incl. the same base name from two packages."""
    op = 'acme.other.v1'
    dep = file('acme/other/v1/common.proto', op, messages=[message('Money', [field('units', 1, 'int64')]),
                                                           message('Stamp', [field('at', 1, 'int64')])])
    f1 = file('acme/det/v1/common.proto', P, messages=[message('Local', [field('x', 1, 'string')]),
                                                       message('Local2', [field('y', 1, 'string')])])
    f2 = file('acme/det/v1/extra.proto', P, messages=[message('Extra', [field('z', 1, 'string')])],
              enums=[enum('Mode', 'MODE_UNSPECIFIED', 'ON')])
    msgs = [message('Req', [field('local', 1, Q('Local')), field('money', 2, f'.{op}.Money'), field('extra', 3, Q('Extra')),
                            field('stamp', 4, f'.{op}.Stamp'), field('mode', 5, 'enum:' + Q('Mode')),
                            field('ts', 6, '.google.protobuf.Timestamp'), field('mask', 7, '.google.protobuf.FieldMask'),
                            field('local2', 8, Q('Local2')), field('d', 9, '.google.protobuf.Duration')]),
            message('Resp', [field('req', 1, Q('Req')), field('any', 2, '.google.protobuf.Any')])]
    svcs = [service(n, [method('Get', Q('Req'), Q('Resp'), http=('post', f'/v1/{n.lower()}:get', '*'), sigs=['local,money,extra']),
                        method('List', Q('Req'), Q('Resp'), http=('post', f'/v1/{n.lower()}:list', '*')),
                        method('Delete', Q('Req'), EMPTY, http=('post', f'/v1/{n.lower()}:delete', '*'))])
            for n in ('Zebra', 'Apple', 'Mango')]
    main = file('acme/det/v1/svc.proto', P, messages=msgs, services=svcs)
    std = desc.std_dep_names()
    for f in (dep, f1, f2):
        f.dependency.extend(std)
    main.dependency.extend(std + [dep.name, f1.name, f2.name])
    return request([f1, f2, main], 'transport=grpc+rest,metadata', extra_dep_files=[dep]), None


RETRY = {"methodConfig": [
    {"name": [{"service": "acme.det.v1.Ret", "method": "A"}, {"service": "acme.det.v1.Ret", "method": "B"}],
     "timeout": "60s", "retryPolicy": {"maxAttempts": 5, "initialBackoff": "0.1s", "maxBackoff": "60s", "backoffMultiplier": 1.3,
                                       "retryableStatusCodes": ["UNAVAILABLE", "DEADLINE_EXCEEDED", "ABORTED"]}},
    {"name": [{"service": "acme.det.v1.Ret", "method": "C"}], "timeout": "5s",
     "retryPolicy": {"maxAttempts": 3, "initialBackoff": "1s", "maxBackoff": "10s", "backoffMultiplier": 2,
                     "retryableStatusCodes": ["INTERNAL", "UNKNOWN"]}}]}


def hostile_retry():
    msgs = [message('Req', [field('name', 1, 'string')]), message('Resp', [field('ok', 1, 'bool')])]
    svc = service('Ret', [method(n, Q('Req'), Q('Resp'), http=('get', f'/v1/{n.lower()}/{{name}}')) for n in 'ABCD'])
    f = file('acme/det/v1/ret.proto', P, messages=msgs, services=[svc])
    return request([f], 'transport=grpc+rest,metadata,retry-config=@retry.json@'), {'retry.json': json.dumps(RETRY)}


def hostile_types():
    """A request reaching several message/enum types through fields, nesting and recursion."""
    mf, me = map_field(Q('Tree'), 'kids', 4, 'string', Q('Tree'))
    msgs = [message('LeafA', [field('a', 1, 'string')]), message('LeafB', [field('b', 1, 'string')]),
            message('LeafC', [field('c', 1, 'enum:' + Q('Hue'))]),
            message('Tree', [field('a', 1, Q('LeafA')), field('b', 2, Q('LeafB')), field('c', 3, Q('LeafC')), mf,
                             field('n', 5, Q('Tree.Node'))], nested=[me, message('Node', [field('t', 1, Q('Tree')), field('h', 2, 'enum:' + Q('Hue'))])]),
            message('Req', [field('tree', 1, Q('Tree')), field('a', 2, Q('LeafA'), oneof=0), field('b', 3, Q('LeafB'), oneof=0)], oneofs=['pick']),
            message('Resp', [field('trees', 1, Q('Tree'), repeated=True)])]
    svc = service('Types', [method('Echo', Q('Req'), Q('Resp'), http=('post', '/v1/echo', '*'), sigs=['tree,a', 'tree,b']),
                            method('Echo2', Q('Req'), Q('Resp'), http=('post', '/v1/echo2', '*'))])
    f = file('acme/det/v1/types.proto', P, messages=msgs, enums=[enum('Hue', 'HUE_UNSPECIFIED', 'RED', 'GREEN')], services=[svc])
    return request([f], 'transport=grpc+rest,metadata'), None


def hostile_subpackages():
    """Several proto sub-packages (the order in which %sub templates visit them decides the file order)."""
    files = []
    names_ = ['shipping', 'orders', 'billing', 'catalog', 'accounts']
    for n in names_:
        sp = f'{P}.{n}'
        files.append(file(f'acme/det/v1/{n}/{n}.proto', sp,
                          messages=[message(n.capitalize() + 'Req', [field('name', 1, 'string')]),
                                    message(n.capitalize() + 'Item', [field('name', 1, 'string')])],
                          services=[service(n.capitalize() + 'Service', [
                              method('Get', f'.{sp}.{n.capitalize()}Req', f'.{sp}.{n.capitalize()}Item',
                                     http=('get', f'/v1/{n}/{{name}}'))])]))
    root = file('acme/det/v1/root.proto', P, messages=[message('Root', [field('name', 1, 'string')])])
    return request([root] + files, 'transport=grpc+rest,metadata,autogen-snippets=false'), None


# hand-written sample config (option samples=<file>): ids that collide with another sample's region tag are
# disambiguated with a digest of the spec -- which must not depend on the process
SAMPLE_CONFIG = '''---
type: com.google.api.codegen.samplegen.v1p2.SampleConfigProto
schema_version: 1.2.0
samples:
- id: get_book_sample
  region_tag: library_get_book_basic
  description: Fetch a single book
  rpc: GetBook
  service: acme.lib.v1.Library
- region_tag: get_book_sample
  description: Fetch a single book, again
  rpc: GetBook
  service: acme.lib.v1.Library
- id: delete_book_sample
  region_tag: library_delete_book_basic
  description: Delete a book
  rpc: DeleteBook
  service: acme.lib.v1.Library
- region_tag: delete_book_sample
  description: Delete a book and print the result
  rpc: DeleteBook
  service: acme.lib.v1.Library
- region_tag: library_list_books_plain
  description: List books
  rpc: ListBooks
  service: acme.lib.v1.Library
'''


def extended_ops_input():
    """Compute-style extended operations: one service whose RPCs name six different operation services."""
    from .c16_selective import Q as Q16, P as P16
    from ..desc import enum
    names_ = ['Zonal', 'Regional', 'Global', 'Alpha', 'Beta', 'Org']
    msgs = [
        message('Operation', [field('name', 1, 'string', operation_field=1), field('http_error_status_code', 2, 'int32', operation_field=3),
                              field('http_error_message', 3, 'string', operation_field=4),
                              field('status', 4, 'enum:' + Q16('Operation.Status'), operation_field=2)],
                enums=[enum('Status', 'UNDEFINED_STATUS', 'DONE', 'PENDING', 'RUNNING')]),
        message('StartRequest', [field('project', 1, 'string', operation_request_field='project'), field('what', 2, 'string')]),
    ]
    svcs, starts = [], []
    for n in names_:
        msgs.append(message(f'Get{n}OperationRequest', [field('operation', 1, 'string', operation_response_field='name'),
                                                        field('project', 2, 'string')]))
        svcs.append(service(f'{n}Operations', [method('Get', Q16(f'Get{n}OperationRequest'), Q16('Operation'),
                                                      http=('get', f'/v1/projects/{{project}}/{n.lower()}ops/{{operation}}'),
                                                      operation_polling=True)]))
        starts.append(method(f'Start{n}', Q16('StartRequest'), Q16('Operation'), http=('post', f'/v1/projects/{{project}}:start{n.lower()}', '*'),
                             operation_service=f'{n}Operations'))
    svcs.append(service('Jobs', starts))
    f = file('acme/sel/v1/jobs.proto', P16, messages=msgs, services=svcs)
    f.dependency.extend(desc.std_dep_names())
    return request([f], 'transport=rest,autogen-snippets=false'), None


def selective_input():
    """Selective generation (the pruning pass) over the C16 type graph."""
    from . import c16_selective as c16
    keep = [f'{c16.P}.{s}.{r}' for s, r in c16.RPCS[:4]]
    return request(c16.graph(), 'transport=grpc+rest,autogen-snippets=false,service-yaml=@svc.yaml@'), {'svc.yaml': c16.yaml_for(keep, False)}


SAMPLE_CONFIG_B = '''---
type: com.google.api.codegen.samplegen.v1p2.SampleConfigProto
schema_version: 1.2.0
samples:
- region_tag: library_get_book_tour
  description: Fetch a book, the guided tour
  rpc: GetBook
  service: acme.lib.v1.Library
- region_tag: library_delete_book_tour
  description: Delete a book, the guided tour
  rpc: DeleteBook
  service: acme.lib.v1.Library
'''


def paging_both_fields_input():
    """List methods whose requests carry both page_size and the legacy max_results, only one of them of a usable type."""
    PP = 'acme.pg.v1'
    QQ = lambda n: f'.{PP}.{n}'
    msgs = [message('Item', [field('name', 1, 'string')])]
    meths = []
    for i, (ps, mr) in enumerate([('int32', '.google.protobuf.Int64Value'), ('string', 'int32'), ('int32', 'string'), ('int32', 'int32'),
                                  ('double', '.google.protobuf.UInt32Value')]):
        msgs.append(message(f'List{i}Request', [field('parent', 1, 'string'), field('page_size', 2, ps), field('page_token', 3, 'string'),
                                               field('max_results', 4, mr)]))
        msgs.append(message(f'List{i}Response', [field('items', 1, QQ('Item'), repeated=True), field('next_page_token', 2, 'string')]))
        meths.append(method(f'List{i}', QQ(f'List{i}Request'), QQ(f'List{i}Response'), http=('get', f'/v1/{{parent=shelves/*}}/items{i}')))
    f = file('acme/pg/v1/pg.proto', PP, messages=msgs, services=[service('Pg', meths)])
    return request([f], 'transport=grpc+rest,metadata'), None


# the mixin YAML with several additional bindings per Operations rule (their order is part of the emitted REST transports)
MIXIN_YAML_BINDINGS = apis.MIXIN_YAML.replace(
    "    get: '/v1/{{name=operations/*}}'\n",
    "    get: '/v1/{{name=operations/*}}'\n    additional_bindings:\n    - get: '/v1/{{name=projects/*/operations/*}}'\n"
    "    - get: '/v1/{{name=projects/*/locations/*/operations/*}}'\n    - get: '/v1/{{name=folders/*/operations/*}}'\n"
    "    - get: '/v1/{{name=organizations/*/operations/*}}'\n").replace(
    "    get: '/v1/{{name=operations}}'\n",
    "    get: '/v1/{{name=operations}}'\n    additional_bindings:\n    - get: '/v1/{{name=projects/*}}/operations'\n"
    "    - get: '/v1/{{name=projects/*/locations/*}}/operations'\n    - get: '/v1/{{name=folders/*}}/operations'\n")
assert MIXIN_YAML_BINDINGS.count('additional_bindings') == 2


def inputs(thorough):
    ok_edits = [n for n in edits.EDIT_NAMES if n not in ('subpkg_service', 'recursive_oneof_first', 'subpkg_types')]
    out = {
        'baseline': (apis.baseline('transport=grpc+rest,metadata'), None),
        'resources': hostile_resources(),
        'services+imports': hostile_services(),
        'retry': hostile_retry(),
        'types': hostile_types(),
        'subpackages': hostile_subpackages(),
        'max-state': (edits.build(ok_edits, 'transport=grpc+rest,metadata'), None),
        'baseline+handwritten-samples': (apis.baseline('transport=grpc,samples=@samples.yaml@'), {'samples.yaml': SAMPLE_CONFIG}),
        'baseline+mixins': (apis.baseline('transport=grpc+rest,metadata,service-yaml=@svc.yaml@'),
                            {'svc.yaml': MIXIN_YAML_BINDINGS.format(service='acme.lib.v1.Library')}),
        'baseline+two-sample-configs': (apis.baseline('transport=grpc,autogen-snippets=false,samples=@samples.yaml@,samples=@tour.yaml@'),
                                        {'samples.yaml': SAMPLE_CONFIG, 'tour.yaml': SAMPLE_CONFIG_B}),
        'paging-both-fields': paging_both_fields_input(),
        'extended-operations': extended_ops_input(),
        'selective-generation': selective_input(),
    }
    if thorough:
        out['baseline-ads'] = (apis.baseline('transport=grpc,python-gapic-templates=ads-templates,old-naming'), None)
        out['baseline-rest'] = (apis.baseline('transport=rest,rest-numeric-enums'), None)
        for n in ('file2_service', 'two_services_one_file', 'resource_multi_pattern', 'same_basename_imports'):
            out['edit:' + n] = (edits.build([n], 'transport=grpc+rest,metadata'), None)
    for k, (req, of) in out.items():
        desc.gate(req)
    return out


def det_run(task):
    """One generator process. task = (input name, request bytes, perturbation dict, workroot)"""
    name, req_bytes, pert, root = task
    d = tempfile.mkdtemp(prefix='det-', dir=root)
    try:
        rp, op, jp = (os.path.join(d, x) for x in ('req.bin', 'res.bin', 'orders.json'))
        with open(rp, 'wb') as f:
            f.write(req_bytes)
        extra = dict(PYTHONPATH=gen.REPO + os.pathsep + gen.VERIF)
        if pert.get('malloc'):
            extra['PYTHONMALLOC'] = pert['malloc']
        if pert.get('env_pad'):
            extra['VERIF_PAD'] = 'x' * pert['env_pad']
        if pert.get('epoch'):
            extra['VERIF_FAKE_EPOCH'] = str(pert['epoch'])
        if pert.get('pbimpl'):
            extra['PROTOCOL_BUFFERS_PYTHON_IMPLEMENTATION'] = pert['pbimpl']
        env = gen.child_env(extra, hashseed=pert.get('seed', 0))
        cwd = {'scratch': d, 'root': '/', 'deep': os.path.join(d, 'a', 'b', 'c', 'd')}[pert.get('cwd', 'scratch')]
        os.makedirs(cwd, exist_ok=True)
        if pert.get('cli'):
            cmd = [gen.PY, '-W', 'ignore', '-m', 'gapic.cli.generate', '--request', rp, '--output', op]
        else:
            cmd = [gen.PY, '-W', 'ignore', '-m', 'mc.detwrap', rp, op, jp]
        p = subprocess.run(cmd, cwd=cwd, env=env, capture_output=True, timeout=900)
        if p.returncode != 0:
            return dict(name=name, pert=pert, ok=False, err=p.stderr.decode('utf8', 'replace')[-1500:])
        with open(op, 'rb') as f:
            data = f.read()
        orders = {}
        if os.path.exists(jp):
            with open(jp) as f:
                orders = json.load(f)
        return dict(name=name, pert=pert, ok=True, sha=hashlib.sha256(data).hexdigest(), size=len(data), orders=orders,
                    response=data if pert.get('keep') else None)
    finally:
        import shutil
        shutil.rmtree(d, ignore_errors=True)


def first_diff(a, b):
    from google.protobuf.compiler import plugin_pb2
    ra, rb = plugin_pb2.CodeGeneratorResponse.FromString(a), plugin_pb2.CodeGeneratorResponse.FromString(b)
    fa, fb = {f.name: f.content for f in ra.file}, {f.name: f.content for f in rb.file}
    if [f.name for f in ra.file] != [f.name for f in rb.file]:
        return 'file-order-or-set', f'file lists differ: {sorted(set(fa) ^ set(fb))[:4]}'
    for n in fa:
        if fa[n] != fb[n]:
            la, lb = fa[n].splitlines(), fb[n].splitlines()
            for i, (x, y) in enumerate(zip(la, lb)):
                if x != y:
                    return n, f'{n}:{i + 1}: {x.strip()[:90]!r} vs {y.strip()[:90]!r}'
            return n, f'{n}: lengths differ'
    return 'supported_features', 'file contents equal'


def run(ctx, only=None):
    ins = inputs(ctx.thorough)
    if only:
        ins = {k: v for k, v in ins.items() if k == only['input']}
    root = engine.scratch_root()
    bound = {k: gen.bind_request(req.SerializeToString(), of, root) for k, (req, of) in ins.items()}
    base_seed = ctx.seed
    max_seeds = 64 if ctx.thorough else 24
    batch = 8
    results = {k: [] for k in ins}
    sites = {k: {} for k in ins}     # site -> set of observed orders (tuples)
    site_kind = {}                   # site -> 'seed' (str elements) | 'address' (objects hashed by id)

    def target_met(k):
        for site, seen in sites[k].items():
            if site_kind.get(site) != 'seed':
                continue     # address-hashed sets do not follow the hash seed; they are perturbed separately
            n = len(next(iter(seen)))
            need = math.factorial(n) if n <= 3 else 6
            if len(seen) < need:
                return False
        return True

    seeds_done = 0
    while seeds_done < max_seeds:
        tasks = []
        for k in ins:
            if seeds_done and target_met(k):
                continue
            for s in range(seeds_done, seeds_done + batch):
                tasks.append((k, bound[k], dict(seed=base_seed + s, keep=(s == 0), cli=(s % 3 == 2)), root))
        if not tasks:
            break
        for r in engine.pmap(det_run, tasks):
            results[r['name']].append(r)
            for site, o in (r.get('orders') or {}).items():
                sites[r['name']].setdefault(site, set()).add(tuple(o['order']))
                site_kind[site] = o['by']
        seeds_done += batch
        ctx.log(f'{seeds_done} seeds: ' + ', '.join(f'{k}:{"met" if target_met(k) else "open"}' for k in ins))
    # other perturbations (seed fixed)
    tasks = []
    for k in ins:
        for pert in (dict(cwd='root'), dict(cwd='deep'), dict(malloc='malloc'), dict(env_pad=20000), dict(epoch=946684800),
                     dict(epoch=4102444800), dict(malloc='malloc', seed=base_seed + 1, cwd='deep', env_pad=777),
                     dict(malloc='malloc', env_pad=4096 + 13), dict(malloc='pymalloc_debug'), dict(env_pad=131),
                     # the other protobuf runtime: its map fields iterate in another order
                     dict(pbimpl='python')):
            tasks.append((k, bound[k], dict(dict(seed=base_seed), **pert), root))
    for r in engine.pmap(det_run, tasks):
        results[r['name']].append(r)

    for k, rs in results.items():
        bad = [r for r in rs if not r['ok']]
        if bad and len(bad) == len(rs):
            ctx.violation(f'{k}|generation-failed', f'{k}: generator failed in every run: {bad[0]["err"][-300:]}', dict(input=k))
            continue
        if bad:
            ctx.violation(f'{k}|generation-flaky', f'{k}: generator failed under {bad[0]["pert"]}: {bad[0]["err"][-300:]}', dict(input=k))
        oks = [r for r in rs if r['ok']]
        ref = next(r for r in oks if r.get('response'))
        shas = {}
        for r in oks:
            shas.setdefault(r['sha'], []).append(r['pert'])
            ctx.state(1)
            ctx.validated_n(1)
            ctx.evaluated(1)
            if r.get('orders') and r['orders'] != ref.get('orders'):
                ctx.nontrivial_case(f'{k}|{sorted(r["pert"].items())}')
        ctx.outcome(f'{k}: {len(shas)} distinct response(s)')
        if len(shas) > 1:
            # find one differing run and name the first differing file
            other = next(r for r in oks if r['sha'] != ref['sha'])
            again = det_run((k, bound[k], dict(other['pert'], keep=True, cli=False), root))
            where, detail = first_diff(ref['response'], again['response']) if again.get('response') else ('?', '?')
            kinds = sorted({('seed' if set(p) <= {'seed', 'keep', 'cli'} else '+'.join(sorted(set(p) - {'keep', 'cli'}))) for ps in shas.values() for p in ps})
            ctx.violation(f'{k}|nondeterministic|{where}', f'{k}: {len(shas)} different responses over {len(oks)} runs; e.g. {other["pert"]} '
                          f'vs seed {base_seed}: {detail}', dict(input=k, perts=[ref['pert'], other['pert']]))
    # coverage of iteration orders
    cov = {}
    unmet = 0
    for k in ins:
        for site, seen in sites[k].items():
            n = len(next(iter(seen)))
            need = math.factorial(n) if n <= 3 else 6
            cov[f'{k}|{site}'] = dict(elements=n, orders_seen=len(seen), target=need, hashed_by=site_kind.get(site))
            if len(seen) < need and site_kind.get(site) == 'seed':
                unmet += 1
    ctx.extra['order_sites'] = len(cov)
    ctx.extra['order_sites_target_unmet'] = unmet
    ctx.extra['order_coverage_sample'] = dict(sorted(cov.items())[:12])
    ctx.extra['order_sites_unmet'] = {k: v for k, v in cov.items() if v['orders_seen'] < v['target']}
    ctx.assume('sets of objects hashed by address (Field, exception classes) are perturbed through allocator/ASLR/environment '
               'size only; their order coverage is reported (order_sites_unmet) but is not a completeness target')
    ctx.extra['seeds_used'] = seeds_done
    if unmet:
        ctx.cap(f'{unmet} container sites did not show all orders within {max_seeds} seeds')
    if not only and len(cov) < 10:
        # the container dump reads model internals; if they were renamed the byte comparison still stands, the order-coverage claim does not
        ctx.cap(f'only {len(cov)} unordered-container sites could be observed on this tree: order coverage not established')
    ctx.sample(dict(input='resources', perturbation=dict(seed=base_seed + 1), note='fresh process, PYTHONHASHSEED varied'))
    ctx.sample(dict(input='baseline', perturbation=dict(cwd='deep', malloc='malloc', env_pad=777)))
    ctx.extra['bound'] = f'{len(ins)} requests; seeds until order coverage (cap {max_seeds}); cwd/allocator/env/clock perturbations'
    ctx.assume('wall-clock independence is checked under a patched clock (two epochs) only')


def replay(ctx, state):
    run(ctx, only=state)
