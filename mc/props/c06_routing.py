"""C06 -- x-goog-request-params follows AIP-4222 (explicit google.api.routing rules and
implicit routing from the primary HTTP path template), on sync gRPC, asyncio gRPC and REST."""
import itertools

from .. import desc, engine
from ..desc import field, message, method, service, file, request
from ..ref import names, routing
from ..report import HarnessError

RULE = ('explicit: all routing rules of length 1 and 2 over fields {name, table, app.name} x 8 templates x '
        '{own key, key shared with the first parameter} (length 3 with shared keys in thorough); implicit: path-template '
        'shapes; per rule the full product of per-field candidate values (unset, matching, zero-segment **, needs escaping, '
        'wrong literal, extra/missing segment) x {sync, asyncio, REST}; non-trivial = distinct (rule, valuation, path) '
        'whose reference header is non-empty')

P = 'acme.route.v1'
Q = lambda n: f'.{P}.{n}'
FIELDS = ['name', 'table', 'app.name']
SIG = 'name,table,app,outer,payload'      # every method also offers its request fields as flattened keyword arguments
TEMPLATES = ['', '{K=*}', '{K=**}', 'lit/{K=*}', '{K=lit/*}/**', 'lit/{K=*}/lit', '{K=lit/*/lit/*}', 'lit/{K=**}']

IMPLICIT = [  # (id, verb, uri, body)
    ('one-var', 'get', '/v1/{name=shelves/*}', None),
    ('bare-var', 'get', '/v1/things/{name}', None),
    ('multi-seg', 'get', '/v1/{name=shelves/*/books/*}', None),
    ('dstar', 'get', '/v1/{name=shelves/**}', None),
    ('dotted', 'post', '/v1/{app.name=apps/*}:run', '*'),
    ('dotted3', 'post', '/v1/{outer.app.name=apps/*}:deep', '*'),
    ('two-vars', 'get', '/v1/{name=shelves/*}/tables/{table}', None),
    ('reserved', 'get', '/v1/{class=classes/*}', None),
    ('suffix-verb', 'post', '/v1/{name=shelves/*}:archive', '*'),
    ('additional', 'get', '/v1/{name=shelves/*}/x', None),   # + additional binding on table (must be ignored)
    ('no-var', 'get', '/v1/constant', None),
    # every member of the http rule's pattern oneof can be the primary pattern
    ('verb-put', 'put', '/v1/{name=shelves/*}/put', '*'),
    ('verb-patch', 'patch', '/v1/{app.name=apps/*}/patch', '*'),
    ('verb-delete', 'delete', '/v1/{name=shelves/*}/tables/{table}/del', None),
    ('verb-custom', 'custom', '/v1/{name=shelves/*}/books/{table}', None),   # custom: {kind: "HEAD"}: gRPC paths only
]


def rules(thorough):
    singles = [(f, t) for f in FIELDS for t in TEMPLATES]
    out = [[]]      # the empty annotation: no parameters, so never a header (and no implicit fallback either)
    for f, t in singles:
        out.append([(f, t.replace('K', 'k0'))])
    for (f0, t0), (f1, t1) in itertools.product(singles, singles):
        out.append([(f0, t0.replace('K', 'k0')), (f1, t1.replace('K', 'k1'))])
        if t0 and t1:
            out.append([(f0, t0.replace('K', 'k0')), (f1, t1.replace('K', 'k0'))])      # shared key
        elif t1 and not t0 and '.' not in f0:
            out.append([(f0, ''), (f1, t1.replace('K', f0))])   # keyed like the template-less first parameter
        elif t0 and not t1 and '.' not in f1:
            out.append([(f0, t0.replace('K', f1)), (f1, '')])
    if thorough:
        for a, b, c in itertools.product(singles, repeat=3):
            if a[1] and b[1] and c[1] and len({a[0], b[0], c[0]}) <= 2:
                out.append([(a[0], a[1].replace('K', 'k0')), (b[0], b[1].replace('K', 'k1')), (c[0], c[1].replace('K', 'k0'))])
    return out


def build(rule_chunk, chunk_id, with_implicit):
    msgs = [message('App', [field('name', 1, 'string'), field('zone', 2, 'string')]),
            message('Outer', [field('app', 1, Q('App'))]),
            message('RouteReq', [field('name', 1, 'string'), field('table', 2, 'string'), field('app', 3, Q('App')),
                                 field('outer', 4, Q('Outer')), field('class', 5, 'string'), field('payload', 6, 'string')]),
            message('Resp', [field('ok', 1, 'bool')]),
            message('ListReq', [field('parent', 1, 'string'), field('page_size', 2, 'int32'), field('page_token', 3, 'string'),
                                field('table', 4, 'string'), field('payload', 5, 'string')]),
            message('ListResp', [field('items', 1, Q('Resp'), repeated=True), field('next_page_token', 2, 'string')])]
    meths, cells = [], []
    for i, rule in enumerate(rule_chunk):
        rpc = f'R{chunk_id}x{i}'
        # the empty annotation sits on a method whose path *has* variables: no implicit fallback may happen
        http = ('post', f'/v1/r/{chunk_id}/{i}', '*') if rule else ('post', f'/v1/{{name=shelves/*}}/r/{chunk_id}/{i}', '*')
        meths.append(method(rpc, Q('RouteReq'), Q('Resp'), http=http, routing=rule, sigs=[SIG]))
        cells.append(dict(id='explicit/' + ';'.join(f'{f}~{t}' for f, t in rule), rpc=rpc, py=names.py_method(rpc),
                          kind='explicit', params=rule, kwargs=True))
    svcs = [service('Route', meths)]
    if with_implicit:
        im = []
        for cid, verb, uri, body in IMPLICIT:
            rpc = 'Imp' + ''.join(x.capitalize() for x in cid.replace('-', ' ').split())
            http = (verb, uri, body, [('get', '/v1/{table=tables/*}/y')]) if cid == 'additional' else (verb, uri, body)
            if verb == 'custom':
                http = ('custom', ('HEAD', uri))
            im.append(method(rpc, Q('RouteReq'), Q('Resp'), http=http, sigs=[SIG] if cid != 'reserved' else ()))
            im.append(method(rpc + 'Stream', Q('RouteReq'), Q('Resp'), ss=True,
                             http=(verb, uri.replace('/v1/', '/v1/stream/'), body) if verb != 'custom' else ('custom', ('HEAD', uri.replace('/v1/', '/v1/stream/')))))
            for suffix in ('', 'Stream'):
                cells.append(dict(id=f'implicit/{cid}{"/stream" if suffix else ""}', rpc=rpc + suffix,
                                  py=names.py_method(rpc + suffix), kind='implicit', uri=uri, verb=verb, body=body,
                                  vars=routing.path_variables(uri), stream=bool(suffix), service='Implicit', no_rest=(verb == 'custom'),
                                  kwargs=(cid != 'reserved' and not suffix)))
        svcs.append(service('Implicit', im))
        # paginated methods: every page request of one listing carries the header, not only the first
        pm = [method('ListImplicit', Q('ListReq'), Q('ListResp'), http=('get', '/v1/{parent=shelves/*}/items')),
              method('ListExplicit', Q('ListReq'), Q('ListResp'), http=('get', '/v1/{parent=shelves/*}/routed'),
                     routing=[('table', '{table_id=tables/*}/**'), ('parent', '')]),
              method('ListSig', Q('ListReq'), Q('ListResp'), http=('get', '/v1/{parent=shelves/*}/sig'), sigs=['parent'])]
        svcs.append(service('Paged', pm))
        for m_, vals, exp in (('ListImplicit', {'parent': 'shelves/s 1'}, {'parent': 'shelves/s 1'}),
                              ('ListExplicit', {'parent': 'shelves/s1', 'table': 'tables/t1/x/y'},
                               {'table_id': 'tables/t1', 'parent': 'shelves/s1'}),
                              ('ListSig', {'parent': 'shelves/s2'}, {'parent': 'shelves/s2'})):
            cells.append(dict(id=f'paged/{m_}', rpc=m_, py=names.py_method(m_), kind='paged', service='Paged', values=vals, expected=exp,
                              kwargs=(m_ == 'ListSig')))
    f = file('acme/route/v1/route.proto', P, messages=msgs, services=svcs)
    req = request([f], 'transport=grpc+rest,autogen-snippets=false')
    desc.gate(req)
    return req, cells


def jobs_for(ctx, only=None):
    rl = rules(ctx.thorough)
    n_chunks = 32 if ctx.thorough else 12
    size = (len(rl) + n_chunks - 1) // n_chunks
    jobs = []
    for c in range(n_chunks):
        chunk = rl[c * size:(c + 1) * size]
        if not chunk:
            continue
        req, cells = build(chunk, c, with_implicit=(c == 0))
        if only is not None:
            cells = [x for x in cells if x['id'] in only]
            if not cells:
                continue
        jobs.append(dict(id=f'route/{c}', req=req.SerializeToString(), probe='mc.probes.routing',
                         probe_args=dict(package=names.import_package(P), proto_package=P, cells=cells, seed=ctx.seed),
                         _cells=cells))
    return jobs


def run(ctx, only=None):
    jobs = jobs_for(ctx, only)
    ctx.log(f'{sum(len(j["_cells"]) for j in jobs)} routing cells in {len(jobs)} libraries')
    for job, res in zip(jobs, engine.run_jobs(jobs)):
        if not res['gen']['ok']:
            ctx.violation(f'{job["id"]}|generation:{res["gen"]["etype"]}:{res["gen"]["where"]}',
                          f'generator failed: {res["gen"]["emsg"][:300]}', dict(cells=[c['id'] for c in job['_cells']][:5]))
            continue
        if 'probe_error' in res:
            raise HarnessError(f'C06 probe {job["id"]}: ' + res['probe_error'][-2000:])
        obs = res['obs']
        if obs.get('import_error'):
            e = obs['import_error']
            ctx.violation(f'import:{e["etype"]}:{e["where"]}', f'library does not import: {e["emsg"]}',
                          dict(cells=[c['id'] for c in job['_cells']][:5]))
            continue
        ctx.state(len(job['_cells']), transitions=obs['valuations'])
        ctx.validated_n(len(job['_cells']))
        ctx.evaluated(obs['calls'])
        for k in obs['nontrivial']:
            ctx.nontrivial_case(k)
        for k, v in obs['outcomes'].items():
            ctx.outcome(k, v)
        for s in obs['samples']:
            ctx.sample(s)
        for f in obs['failures']:
            ctx.violation(f'{f["cell"]}|{f["path"]}|{f["kind"]}',
                          f'{f["cell"]} via {f["path"]} values={f["values"]}: {f["kind"]}: {f["detail"]}', dict(cells=[f['cell']]))
    ctx.extra['bound'] = 'explicit rules of length <=2 (3 with shared keys in thorough), 8 templates, 3 fields; full product of candidate values'


def replay(ctx, state):
    run(ctx, only=state['cells'])
