"""C13 -- the unit-test suite emitted with a library passes against that library.

States = conventional-profile API (baseline L + every in-profile shape group, DESIGN.md
section 8) x option sets that change the emitted surface.  Each state is generated and its
emitted tests/unit suite is run with pytest in a fresh process; zero failures / errors and at
least one test per RPC are demanded.
"""
import json
import re

from google.protobuf.compiler import plugin_pb2

from .. import apis, desc, edits, engine
from ..report import HarnessError

RULE = ('states = (max profile state | baseline | each single shape group in thorough) x option deviations {transport, numeric '
        'enums, mixin yamls, async REST, add-iam-methods, retry config, ads templates, metadata, snippets}; oracle = pytest on the '
        'emitted tests/unit reports no failure/error and collects >=1 test per RPC; non-trivial = distinct states whose suite ran '
        '>= 100 tests')

# shapes outside the conventional profile (DESIGN.md section 8) or failing generation
OUT_OF_PROFILE = {'no_default_host', 'extended_operation', 'subpkg_types', 'subpkg_service', 'recursive_oneof_first',
                  # a paginated RPC whose response is a plain protobuf message of another package: the emitted pager tests are
                  # written for proto-plus responses (page_.raw_page, <Response>.to_json); the library itself is judged by C03
                  'paged_request_other_package'}
ADS_EXTRA_OUT = {'dep_pkg_types', 'iam_types', 'same_basename_imports'}       # D19
PROFILE = [n for n in edits.EDIT_NAMES if n not in OUT_OF_PROFILE]

RETRY = {"methodConfig": [{"name": [{"service": "acme.lib.v1.Library", "method": "GetBook"},
                                    {"service": "acme.lib.v1.Library", "method": "ListBooks"}],
                           "timeout": "60s", "retryPolicy": {"maxAttempts": 5, "initialBackoff": "0.1s", "maxBackoff": "60s",
                                                             "backoffMultiplier": 1.3,
                                                             "retryableStatusCodes": ["UNAVAILABLE", "DEADLINE_EXCEEDED"]}},
                          {"name": [{"service": "acme.lib.v1.Library", "method": "DeleteBook"}], "timeout": "5.5s"}]}


def yaml_with(apis_listed):
    full = apis.MIXIN_YAML.format(service='acme.lib.v1.Library')
    head, rules = full.split('http:\n')
    lines = [l for l in head.splitlines() if not l.startswith('- name: google.') or any(a in l for a in apis_listed)]
    return '\n'.join(lines) + '\nhttp:\n' + rules


ASYNC_REST_YAML = yaml_with([]) + ('publishing:\n  library_settings:\n  - version: acme.lib.v1\n    python_settings:\n'
                                   '      experimental_features:\n        rest_async_io_enabled: true\n')

OPTSETS = {
    'default': ('transport=grpc+rest', None),
    'grpc': ('transport=grpc', None),
    'rest+grpc': ('transport=rest+grpc', None),
    'rest': ('transport=rest', None),
    'numeric-enums': ('transport=grpc+rest,rest-numeric-enums', None),
    'yaml-operations': ('transport=grpc+rest,service-yaml=@svc.yaml@', {'svc.yaml': yaml_with(['google.longrunning.Operations'])}),
    'yaml-iam': ('transport=grpc+rest,service-yaml=@svc.yaml@', {'svc.yaml': yaml_with(['google.iam.v1.IAMPolicy'])}),
    'yaml-locations': ('transport=grpc+rest,service-yaml=@svc.yaml@', {'svc.yaml': yaml_with(['google.cloud.location.Locations'])}),
    'yaml-all-mixins': ('transport=grpc+rest,service-yaml=@svc.yaml@', {'svc.yaml': apis.MIXIN_YAML.format(service='acme.lib.v1.Library')}),
    'async-rest': ('transport=rest,service-yaml=@svc.yaml@', {'svc.yaml': ASYNC_REST_YAML}),
    'async-rest+grpc': ('transport=grpc+rest,service-yaml=@svc.yaml@', {'svc.yaml': ASYNC_REST_YAML}),
    'add-iam-methods': ('transport=grpc+rest,add-iam-methods', None),
    'retry-config': ('transport=grpc+rest,retry-config=@retry.json@', {'retry.json': json.dumps(RETRY)}),
    'metadata+no-snippets': ('transport=grpc+rest,metadata,autogen-snippets=false', None),
    'ads': ('transport=grpc,python-gapic-templates=ads-templates,old-naming', None),
    'ads-rest': ('transport=grpc+rest,python-gapic-templates=ads-templates,old-naming', None),
}


def make_job(history_name, history, optname, workers):
    param, of = OPTSETS[optname]
    hist = [h for h in history if not (optname.startswith('ads') and h in ADS_EXTRA_OUT)]
    req = edits.build(hist, param)
    desc.gate(req)
    pb2 = [f.SerializeToString() for f in req.proto_file if f.name not in req.file_to_generate and f.package.startswith('acme.')]
    rpcs = [names_snake(m.name) for f in req.proto_file if f.name in req.file_to_generate for s in f.service for m in s.method]
    return dict(id=f'{history_name}|{optname}', req=req.SerializeToString(), opt_files=of, probe='mc.probes.emitted_tests',
                pb2_files=pb2, probe_args=dict(workers=workers, rpcs=sorted(set(rpcs))), probe_timeout=3600,
                _hist=history_name, _opt=optname, _history=hist)


def names_snake(n):
    from ..ref import names
    return names.snake(n)


def msg_class(msg):
    m = re.sub(r"'[^']*'|\"[^\"]*\"|\b\d+\b|0x[0-9a-f]+", '_', msg)
    return m[:70]


def run(ctx, only=None):
    states = []
    if only:
        hist = PROFILE if only['hist'] == 'max' else [] if only['hist'] == 'baseline' else [only['hist']]
        states.append((only['hist'], hist, only['opt']))
    else:
        for o in OPTSETS:
            states.append(('max', PROFILE, o))
        states.append(('baseline', [], 'default'))
        if ctx.thorough:
            for n in PROFILE:
                for o in OPTSETS:
                    states.append((n, [n], o))
            for o in OPTSETS:
                if o != 'default':
                    states.append(('baseline', [], o))
    workers = 1 if len(states) >= 12 else max(1, 16 // max(1, len(states)))
    jobs = [make_job(hn, h, o, workers) for hn, h, o in states]
    ctx.log(f'{len(jobs)} states, pytest workers per state = {workers}')
    total = 0
    for job, res in zip(jobs, engine.run_jobs(jobs, progress=20)):
        st = dict(hist=job['_hist'], opt=job['_opt'])
        sid = job['id']
        ctx.state(1, transitions=max(1, len(job['_history'])))
        ctx.evaluated(1)
        if not res['gen']['ok']:
            ctx.violation(f'{job["_opt"]}|generation:{res["gen"]["etype"]}:{res["gen"]["where"]}', f'{sid}: generator failed: {res["gen"]["emsg"][:300]}', st)
            continue
        if 'probe_error' in res:
            raise HarnessError(f'C13 probe {sid}: ' + res['probe_error'][-2000:])
        obs = res['obs']
        ctx.validated_n(1)
        total += obs['tests']
        ctx.evaluated(obs['tests'])
        if obs['tests'] >= 100:
            ctx.nontrivial_case(sid)
        if obs.get('no_junit') or obs['tests'] == 0:
            ctx.violation(f'{job["_opt"]}|no-tests-ran', f'{sid}: pytest produced no results (rc={obs["rc"]}): {obs["tail"][-300:]}', st)
            continue
        missing = sorted(set(job['probe_args']['rpcs']) - set(obs['rpcs_with_tests']))
        if missing:
            ctx.violation(f'{job["_opt"]}|rpc-without-tests|{missing[0]}', f'{sid}: no emitted test mentions RPC(s) {missing[:6]}', st)
        ctx.outcome('suite-passed' if not obs['failed'] else 'suite-failed')
        classes = {}
        for f in obs['failed']:
            tname = re.sub(r'\[.*\]$', '', f['test'].split('::')[-1])
            classes.setdefault(msg_class(f['message']), []).append(tname)
        for cls, tests in classes.items():
            ctx.violation(f'{job["_opt"]}|{job["_hist"] if job["_hist"] in ("max", "baseline") else "single"}|{cls}',
                          f'{sid}: {len(tests)} emitted test(s) fail, e.g. {sorted(set(tests))[:3]}: {cls}', st)
        ctx.sample(dict(state=sid, tests=obs['tests'], failures=obs['failures'], errors=obs['errors'], skipped=obs['skipped']), limit=4)
    if not only and total < 5000 and not ctx.violations:
        raise HarnessError(f'C13 exploration collapsed: {total} emitted tests ran')
    ctx.extra['emitted_tests_run'] = total
    ctx.extra['bound'] = 'max profile state x 15 option sets + baseline' + ('; thorough: every single shape group x 15 option sets' if ctx.thorough else '')
    ctx.assume('the conventional profile excludes the shapes listed in DESIGN.md section 8')


def replay(ctx, state):
    run(ctx, only=state)
