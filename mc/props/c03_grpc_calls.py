"""C03 -- gRPC calls reach the right RPC with the caller's request and return the reply.

Cells = arity x request-type location x response-type location (complete product) plus
method-name cells; packed into one library; every cell is driven through the sync
and asyncio clients with every request form and a bounded-exhaustive set of request
and reply valuations, through FakeChannel (serializer/deserializer chosen by the
emitted code, payload judged by dynamic messages of the *input* descriptors).
"""
import itertools
import keyword

from .. import desc, engine
from ..desc import field, message, enum, method, service, file, request, map_field, EMPTY, OPERATION
from ..ref import names
from ..report import HarnessError

RULE = ('cells = arity(4) x request location(5) x response location(8) + name cells; a second client instance per service on its own channel; each cell x client{sync,asyncio} '
        'x request form{message,dict,omitted | iterators of 0,1,2} x request valuations{empty,each field alone,all} '
        'x reply scripts; non-trivial = distinct (cell, client, form) with >=1 call observed on the channel')

P = 'acme.rpc.v1'
Q = lambda n: f'.{P}.{n}'
ARITIES = {'uu': (False, False), 'us': (False, True), 'su': (True, False), 'ss': (True, True)}
KIND = {'uu': 'unary_unary', 'us': 'unary_stream', 'su': 'stream_unary', 'ss': 'stream_stream'}
REQ_LOCS = {'same': Q('LocalReq'), 'other_file': Q('OtherReq'), 'dep_installed': '.google.iam.v1.GetIamPolicyRequest',
            'dep_synth': '.acme.other.v1.PriceRequest', 'empty': EMPTY,
            # a dependency type whose module name is a reserved word (any_pb2 is imported under an alias-less name all the same)
            'dep_reserved_module': '.google.protobuf.Any'}
RESP_LOCS = {'same': Q('LocalResp'), 'other_file': Q('OtherResp'), 'dep_installed': '.google.iam.v1.Policy',
             'dep_synth': '.acme.other.v1.Money', 'empty': EMPTY, 'operation': OPERATION, 'dep_reserved_module': '.google.protobuf.Any',
             # API-defined messages that merely share the short name of a special well-known type
             'local_empty': Q('Empty'), 'local_operation': Q('Operation')}
KEYWORD_RPCS = ['Import', 'Global', 'Class', 'From', 'Return', 'Pass', 'Lambda', 'Yield', 'Del', 'Assert', 'Await',
                'Async', 'Try', 'While', 'With', 'Is', 'In', 'Not', 'Or', 'And', 'If', 'Else', 'Elif', 'For', 'Def',
                'Raise', 'Break', 'Continue', 'Except', 'Finally', 'Nonlocal', 'As']
UNSAFE_RPCS = ['CreateChannel', 'GrpcChannel', 'OperationsClient', 'Close', 'Kind']


def other_pkg_file():
    op = 'acme.other.v1'
    return file('acme/other/v1/common.proto', op,
                messages=[message('Money', [field('units', 1, 'int64'), field('currency', 2, 'string')]),
                          message('PriceRequest', [field('name', 1, 'string'), field('at', 2, f'.{op}.Money')]),
                          message('ListPricesRequest', [field('parent', 1, 'string'), field('page_size', 2, 'int32'), field('page_token', 3, 'string')]),
                          message('ListPricesResponse', [field('prices', 1, f'.{op}.Money', repeated=True), field('next_page_token', 2, 'string')])])


def build(isolated=None):
    """isolated=(arity, request location, response location): a library with exactly that one RPC (same files and dependencies),
    so that no neighbouring method provides the imports its code needs."""
    local_msgs = []
    kind = enum('Color', 'COLOR_UNSPECIFIED', 'RED', 'BLUE')
    mf, me = map_field(Q('LocalReq'), 'attrs', 6, 'string', 'int32')
    local_msgs.append(message('LocalReq', [
        field('name', 1, 'string'), field('count', 2, 'int64'), field('color', 3, 'enum:' + Q('Color')),
        field('inner', 4, Q('LocalReq.Inner')), field('tags', 5, 'string', repeated=True), mf,
        field('type', 7, 'string'), field('opt', 8, 'int32', optional=True),
        field('a', 9, 'string', oneof=0), field('b', 10, 'bytes', oneof=0)],
        nested=[me, message('Inner', [field('x', 1, 'double'), field('class', 2, 'bool')])], oneofs=['pick']))
    local_msgs.append(message('LocalResp', [field('text', 1, 'string'), field('n', 2, 'uint64'),
                                            field('items', 3, Q('LocalReq.Inner'), repeated=True),
                                            field('from', 4, 'string')]))
    local_msgs.append(message('Empty', [field('note', 1, 'string'), field('stamp', 2, 'int32')]))
    local_msgs.append(message('Operation', [field('name', 1, 'string'), field('done', 2, 'bool'), field('pct', 3, 'int32')]))
    other = file('acme/rpc/v1/types_a.proto', P, messages=[
        message('OtherReq', [field('id', 1, 'fixed32'), field('blob', 2, 'bytes')]),
        message('OtherResp', [field('ok', 1, 'bool'), field('score', 2, 'float')])])
    cells, services = [], []
    for ar, (cs, ss) in ARITIES.items():
        ms = []
        for i, (rq, rs) in enumerate(itertools.product(REQ_LOCS, RESP_LOCS)):
            if isolated and isolated != (ar, rq, rs):
                continue
            name = f'M{ar.capitalize()}{i}'
            # the isolated libraries are generated with both transports (the REST modules are imported with the package)
            ms.append(method(name, REQ_LOCS[rq], RESP_LOCS[rs], cs=cs, ss=ss,
                             http=('post', f'/v1/{name.lower()}', '*') if isolated and not cs else None))
            cells.append(dict(id=f'{ar}/{rq}/{rs}/' + ('isolated' if isolated else 'plain'), service=f'Svc{ar.capitalize()}', rpc=name,
                              py=names.py_method(name), arity=KIND[ar], req=REQ_LOCS[rq], resp=RESP_LOCS[rs]))
        if ms:
            services.append(service(f'Svc{ar.capitalize()}', ms))
    ms = []
    for i, kw in enumerate(KEYWORD_RPCS if not isolated else ()):
        assert keyword.iskeyword(kw.lower())
        ar = list(ARITIES)[i % 4]
        cs, ss = ARITIES[ar]
        ms.append(method(kw, Q('LocalReq'), Q('LocalResp'), cs=cs, ss=ss))
        cells.append(dict(id=f'{ar}/same/same/keyword:{kw}', service='Names', rpc=kw, py=kw.lower() + '_',
                          arity=KIND[ar], req=Q('LocalReq'), resp=Q('LocalResp')))
    for i, n in enumerate(UNSAFE_RPCS if not isolated else ()):
        for ar, (cs, ss) in ARITIES.items():
            if n in ('Close', 'Kind') and ar != 'uu':
                continue
            nm = n if ar == 'uu' else f'{n}{ar.capitalize()}'
            ms.append(method(nm, Q('LocalReq'), Q('LocalResp'), cs=cs, ss=ss))
            cells.append(dict(id=f'{ar}/same/same/unsafe:{nm}', service='Names', rpc=nm, py=names.py_method(nm),
                              arity=KIND[ar], req=Q('LocalReq'), resp=Q('LocalResp')))
    if ms:
        services.append(service('Names', ms))
    # paginated RPCs whose request and response types come from a dependency package (the returned pager wraps the reply)
    ms = []
    for nm, rq, rs in (('ListDepInstalled', '.google.cloud.location.ListLocationsRequest', '.google.cloud.location.ListLocationsResponse'),
                       ('ListDepSynth', '.acme.other.v1.ListPricesRequest', '.acme.other.v1.ListPricesResponse')):
        if isolated:
            break
        ms.append(method(nm, rq, rs))
        cells.append(dict(id=f'uu/paged/{nm}', service='Paged', rpc=nm, py=names.py_method(nm), arity=KIND['uu'], req=rq, resp=rs))
    if ms:
        services.append(service('Paged', ms))
    main = file('acme/rpc/v1/svc.proto', P, messages=local_msgs, enums=[kind], services=services)
    dep = other_pkg_file()
    mods = ['google.iam.v1.iam_policy_pb2', 'google.cloud.location.locations_pb2']
    std = desc.std_dep_names(mods)
    other.dependency.extend(std)
    main.dependency.extend(std + [other.name, dep.name])
    req = request([other, main], 'transport=grpc+rest' if isolated else 'transport=grpc', extra_dep_modules=mods, extra_dep_files=[dep])
    desc.gate(req)
    return req, cells, dep


PP, PW = 'acme.common.v1', 'acme.widgets.v1'


def build_pp():
    """A second library whose dependency package is itself a proto-plus library (option proto-plus-deps)."""
    common = file('acme/common/v1/common.proto', PP, messages=[
        message('Thing', [field('name', 1, 'string'), field('n', 2, 'int32'), field('class', 3, 'string')]),
        message('ThingReply', [field('note', 1, 'string'), field('parts', 2, f'.{PP}.Thing', repeated=True)]),
        message('ListThingsRequest', [field('parent', 1, 'string'), field('page_size', 2, 'int32'), field('page_token', 3, 'string')]),
        message('ListThingsResponse', [field('things', 1, f'.{PP}.Thing', repeated=True), field('next_page_token', 2, 'string')])])
    common.dependency.extend(desc.std_dep_names())
    pre_req = request([common], 'transport=grpc,autogen-snippets=false')
    desc.gate(pre_req)
    locs_req = {'plus_dep': f'.{PP}.Thing', 'same': f'.{PW}.WReq'}
    locs_resp = {'plus_dep': f'.{PP}.ThingReply', 'same': f'.{PW}.WResp'}
    ms, cells = [], []
    for ar, (cs, ss) in ARITIES.items():
        for rq, rs in itertools.product(locs_req, locs_resp):
            name = f'P{ar.capitalize()}{rq.title().replace("_", "")}{rs.title().replace("_", "")}'
            ms.append(method(name, locs_req[rq], locs_resp[rs], cs=cs, ss=ss))
            cells.append(dict(id=f'pp/{ar}/{rq}/{rs}', service='Widgets', rpc=name, py=names.py_method(name), arity=KIND[ar],
                              req=locs_req[rq], resp=locs_resp[rs]))
    # a paginated RPC over the proto-plus dependency's own list request / response
    ms.append(method('ListThings', f'.{PP}.ListThingsRequest', f'.{PP}.ListThingsResponse'))
    cells.append(dict(id='pp/uu/paged/plus_dep', service='Widgets', rpc='ListThings', py='list_things', arity=KIND['uu'],
                      req=f'.{PP}.ListThingsRequest', resp=f'.{PP}.ListThingsResponse'))
    main = file('acme/widgets/v1/widgets.proto', PW, messages=[
        message('WReq', [field('name', 1, 'string'), field('thing', 2, f'.{PP}.Thing')]),
        message('WResp', [field('ok', 1, 'bool'), field('thing', 2, f'.{PP}.Thing')])], services=[service('Widgets', ms)])
    main.dependency.extend(desc.std_dep_names() + [common.name])
    # a service declared in a proto sub-package of the API (its RPC paths carry the sub-package)
    sub_ms = []
    for ar, (cs, ss) in ARITIES.items():
        name = f'Sub{ar.capitalize()}'
        sub_ms.append(method(name, f'.{PW}.WReq', f'.{PW}.WResp', cs=cs, ss=ss))
        cells.append(dict(id=f'pp/{ar}/subpackage-service', service='Admin', rpc=name, py=names.py_method(name), arity=KIND[ar],
                          req=f'.{PW}.WReq', resp=f'.{PW}.WResp'))
    sub = file('acme/widgets/v1/admin/admin.proto', PW + '.admin', services=[service('Admin', sub_ms)])
    sub.dependency.extend(desc.std_dep_names() + [main.name])
    req = request([main, sub], f'transport=grpc,autogen-snippets=false,proto-plus-deps={PP}', extra_dep_files=[common])
    desc.gate(req)
    return pre_req, req, cells


def make_pp_job(cells_subset=None, seed=0):
    pre_req, req, cells = build_pp()
    if cells_subset is not None:
        cells = [c for c in cells if c['id'] in cells_subset]
    return dict(id='c03-protoplus-deps', req=req.SerializeToString(), probe='mc.probes.grpc_calls',
                pre=[dict(id='c03-pp-pre', req=pre_req.SerializeToString())],
                probe_args=dict(package=names.import_package(PW), proto_package=PW, cells=cells, seed=seed,
                                plus={PP: names.import_package(PP)}, svc_package={'Admin': names.import_package(PW) + '.admin'},
                                svc_proto_package={'Admin': PW + '.admin'})), cells


ISOLATED_ARITIES = ('uu', 'us')


def make_isolated_jobs(cells_subset=None, seed=0):
    out = []
    for ar, rq, rs in itertools.product(ISOLATED_ARITIES, REQ_LOCS, RESP_LOCS):
        if cells_subset is not None and f'{ar}/{rq}/{rs}/isolated' not in cells_subset:
            continue
        req, cells, dep = build(isolated=(ar, rq, rs))
        out.append((dict(id=f'c03-isolated/{ar}/{rq}/{rs}', req=req.SerializeToString(), probe='mc.probes.grpc_calls',
                         pb2_files=[dep.SerializeToString()],
                         probe_args=dict(package=names.import_package(P), proto_package=P, cells=cells, seed=seed, no_conformance=True)), cells))
    return out


def make_job(cells_subset=None, seed=0):
    req, cells, dep = build()
    if cells_subset is not None:
        cells = [c for c in cells if c['id'] in cells_subset]
    return dict(id='c03', req=req.SerializeToString(), probe='mc.probes.grpc_calls',
                pb2_files=[dep.SerializeToString()],
                probe_args=dict(package=names.import_package(P), proto_package=P, cells=cells, seed=seed)), cells


def run(ctx):
    job, cells = make_job(seed=ctx.seed)
    ppjob, ppcells = make_pp_job(seed=ctx.seed)
    ctx.log(f'{len(cells)} method cells in one library, {len(ppcells)} in a library over a proto-plus dependency package')
    # a sample of the cells once more with client logging switched on
    # (cells over google.protobuf.Any are left out: rendering an Any of a type unknown to the client's pool for the log record
    # raises in protobuf's JSON printer -- client logging is not part of the statement)
    dcells = [dict(c, id='debug-logging/' + c['id']) for c in [c for c in cells if 'dep_reserved_module' not in c['id']][::5]]
    djob = dict(job, id='c03-debug-logging', probe_args=dict(job['probe_args'], cells=dcells, debug_logging=True))
    iso = make_isolated_jobs(seed=ctx.seed)
    results = engine.run_jobs([job, ppjob, djob] + [j for j, _ in iso])
    res, ppres, dres = results[:3]
    consume(ctx, res, cells)
    consume(ctx, ppres, ppcells, floor=False)
    consume(ctx, dres, dcells, floor=False)
    conf = ctx.extra.get('seam_conformance')
    for (j, icells), ires in zip(iso, results[3:]):
        consume(ctx, ires, icells, floor=False, state=dict(cells=[c['id'] for c in icells]))
    ctx.extra['seam_conformance'] = conf
    ctx.extra['bound'] = 'complete product of arity x request location x response location; name cells; all request forms; valuations {empty, each field alone, all}'
    ctx.assume('the asyncio stream-unary method returns an awaitable call object (api-core); the probe awaits it to obtain the reply')


_PACKED_FPS = set()


def consume(ctx, res, cells, floor=True, state=None):
    tag = (cells[0]['id'] + '|') if state else ''
    if not res['gen']['ok']:
        ctx.violation(f'{tag}generation:{res["gen"]["etype"]}:{res["gen"]["where"]}',
                      f'generator failed on the C03 pack: {res["gen"]["emsg"][:300]}', state or dict(cells='all'))
        ctx.state(1)
        return
    if 'probe_error' in res:
        raise HarnessError('C03 probe: ' + res['probe_error'][-2000:])
    obs = res['obs']
    if obs.get('import_error'):
        e = obs['import_error']
        ctx.violation(f'{tag}import:{e["etype"]}:{e["where"]}', f'C03 pack does not import: {e["emsg"]}', state or dict(cells='all'))
        ctx.state(1)
        return
    n_calls = obs['calls']
    ctx.state(len(cells), transitions=obs['combos'])
    ctx.validated_n(len(cells))
    ctx.evaluated(n_calls)
    for k in obs['nontrivial']:
        ctx.nontrivial_case(k)
    for k, v in obs['outcomes'].items():
        ctx.outcome(k, v)
    for s in obs['samples']:
        ctx.sample(s)
    conf = obs.get('conformance') or {}
    ctx.extra['seam_conformance'] = dict(calls_through_real_grpc_server=conf.get('calls'), aio_calls_through_real_grpc_server=conf.get('aio_calls'), mismatches=len(conf.get('mismatches') or []),
                                         skipped=conf.get('skipped'))
    for f in obs['failures']:
        fp = f'{f["cell"]}|{f["client"]}|{f["form"]}|{f["kind"]}'
        if f['cell'].endswith('/isolated') and fp.replace('/isolated|', '/plain|') in _PACKED_FPS:
            fp = fp.replace('/isolated|', '/plain|')        # the same failure as in the packed library: one finding
        elif not state:
            _PACKED_FPS.add(fp)
        ctx.violation(fp, f'{f["cell"]} {f["client"]} form={f["form"]} val={f["val"]} reply={f["reply"]}: '
                          f'{f["kind"]}: {f["detail"]}', dict(cells=[f['cell']]))
    if conf.get('mismatches') and not ctx.violations:
        raise HarnessError(f'C03 seam conformance: fake channel and real loopback server disagree: {conf["mismatches"][:3]}')
    if floor and n_calls < 20 * len(cells) and not ctx.violations:
        raise HarnessError(f'C03 exploration collapsed: {n_calls} calls for {len(cells)} cells')


def replay(ctx, state):
    sub = None if state['cells'] == 'all' else state['cells']
    if sub and all(c.startswith('debug-logging/') for c in sub):
        job, cells = make_job([c[len('debug-logging/'):] for c in sub], seed=ctx.seed)
        cells = [dict(c, id='debug-logging/' + c['id']) for c in cells]
        job = dict(job, probe_args=dict(job['probe_args'], cells=cells, debug_logging=True))
        res, = engine.run_jobs([job])
        return consume_replay(ctx, res, cells)
    if sub and all(c.endswith('/isolated') for c in sub):
        for job, cells in make_isolated_jobs(sub, seed=ctx.seed):
            res, = engine.run_jobs([job])
            try:
                consume(ctx, res, cells, floor=False, state=dict(cells=[c['id'] for c in cells]))
            except HarnessError as e:
                if 'collapsed' not in str(e):
                    raise
        return
    for mk in (make_job, make_pp_job):
        job, cells = mk(sub, seed=ctx.seed)
        if cells:
            res, = engine.run_jobs([job])
            consume_replay(ctx, res, cells)


def consume_replay(ctx, res, cells):
    try:
        consume(ctx, res, cells)
    except HarnessError as e:
        if 'collapsed' not in str(e):
            raise
