"""C18 -- auto-populated request ids obey AIP-4235 at generation time and at call time.

States = method-settings lists: every field declaration (presence x annotation x required x
type x position) alone, every method kind, duplicate selectors, several fields / methods;
generation outcome is judged by a reference AIP-4235 predicate; accepted states are driven
on sync gRPC, asyncio gRPC and REST with the field unset / empty / caller-provided, three
calls each.
"""
import itertools

from .. import desc, engine
from ..desc import field, message, method, service, file, request
from ..ref import names
from ..report import HarnessError

RULE = ('states = settings lists (48 single field declarations, 4 method kinds, duplicates, two fields, two methods, reserved '
        'name); oracle = AIP-4235 acceptance predicate on the input; accepted: value sent matches the RFC-4122 v4 pattern iff '
        'the field was unset (optional) / empty (plain), fresh per call, caller value untouched, x {sync, asyncio, REST}; '
        'non-trivial = distinct accepted (state, path, field state) triples driven')

P = 'acme.auto.v1'
Q = lambda n: f'.{P}.{n}'


def declarations():
    for opt, ann, req, typ, pos in itertools.product((False, True), (True, False), (False, True), ('string', 'bytes', 'int32'),
                                                     ('top', 'nested')):
        yield dict(optional=opt, annotated=ann, required=req, type=typ, position=pos)


def decl_ok(d):
    return d['annotated'] and not d['required'] and d['type'] == 'string' and d['position'] == 'top'


def decl_id(d):
    return f'{"optional" if d["optional"] else "plain"}/{"uuid4" if d["annotated"] else "unannotated"}/' \
           f'{"required" if d["required"] else "non-required"}/{d["type"]}/{d["position"]}'


def build(case):
    """case: dict(fields=[(name, decl)], methods={name: kind}, settings=[(selector method, [field names])])"""
    top, nested = [field('name', 1, 'string'), field('payload', 2, 'string')], [field('keep', 1, 'string')]
    for i, (fname, d) in enumerate(case['fields']):
        kw = dict(behaviors=d['behaviors']) if d.get('behaviors') else dict(required=d['required'])
        f = field(fname, 10 + i, d['type'], optional=d['optional'], uuid4=d['annotated'], repeated=d.get('repeated', False), **kw)
        (top if d['position'] == 'top' else nested).append(f)
    top.append(field('inner', 3, Q('Inner')))
    msgs = [message('Inner', nested), message('Req', top), message('Resp', [field('ok', 1, 'bool')])]
    by_svc = {}
    svc_of = case.get('services', {})
    driven = {m: [n for n, _ in fs] for m, fs in case['drive']}
    for mname, kind in case['methods'].items():
        # driven methods also offer their fields as flattened keyword arguments
        sigs = [','.join(['name', 'payload'] + driven[mname])] if mname in driven else ()
        by_svc.setdefault(svc_of.get(mname, 'Auto'), []).append(
            method(mname, Q('Req'), Q('Resp'), cs=kind in ('client-streaming', 'bidi'), ss=kind in ('server-streaming', 'bidi'), sigs=sigs,
                   http=None if kind in ('client-streaming', 'bidi') else ('post', f'/v1/{mname.lower()}', '*')))
    f = file('acme/auto/v1/auto.proto', P, messages=msgs, services=[service(sn, ms) for sn, ms in by_svc.items()])
    y = 'type: google.api.Service\nconfig_version: 3\nname: auto.example.com\npublishing:\n  method_settings:\n'
    for sel, fields_ in case['settings']:
        poll_only = sel.startswith('POLL:')
        sel = sel[5:] if poll_only else sel
        full = sel[4:] if sel.startswith('RAW:') else f'{P}.{svc_of.get(sel, "Auto")}.{sel}'
        y += f'  - selector: {full}\n'
        if case.get('long_running') or poll_only:
            # the same entry also carries long-running polling settings (usual for a Create method with a request id)
            y += ('    long_running:\n      initial_poll_delay: 1s\n      poll_delay_multiplier: 1.5\n      max_poll_delay: 5s\n'
                  '      total_poll_timeout: 60s\n')
        if fields_ or not poll_only:
            y += '    auto_populated_fields:\n' + ''.join(f'    - {x}\n' for x in fields_)
    if case.get('selective') is not None:
        # selective generation that keeps the unlisted methods as internal ones: their settings still apply
        y += ('  library_settings:\n'
              f'  - version: {P}\n    python_settings:\n      common:\n        selective_gapic_generation:\n'
              '          generate_omitted_as_internal: true\n          methods:\n'
              + ''.join(f'          - {P}.{svc_of.get(m_, "Auto")}.{m_}\n' for m_ in case['selective']))
    req = request([f], 'transport=grpc+rest,autogen-snippets=false,service-yaml=@svc.yaml@' + (
        ',python-gapic-templates=ads-templates,old-naming' if case.get('ads') else ''))
    if case.get('layout') == 'subpackages':
        # the googleads layout: every file of the API sits in a proto sub-package (services / resources)
        from google.protobuf import text_format
        from google.protobuf.compiler import plugin_pb2
        main = [pf for pf in req.proto_file if pf.name == f.name][0]
        txt = text_format.MessageToString(main).replace('acme.auto.v1', 'acme.auto.v1.services').replace('acme/auto/v1/', 'acme/auto/v1/services/')
        moved = type(main)()
        text_format.Parse(txt, moved)
        res = file('acme/auto/v1/resources/res.proto', P + '.resources', messages=[message('Widget', [field('name', 1, 'string')])])
        res.dependency.extend(desc.std_dep_names())
        req2 = plugin_pb2.CodeGeneratorRequest(parameter=req.parameter)
        req2.proto_file.extend([pf for pf in req.proto_file if pf.name != f.name] + [res, moved])
        req2.file_to_generate.extend([res.name, moved.name])
        req = req2
        y = y.replace(f'{P}.', f'{P}.services.')
    desc.gate(req)
    return req, {'svc.yaml': y}


GOOD = dict(optional=False, annotated=True, required=False, type='string', position='top')
GOOD_OPT = dict(GOOD, optional=True)


def cases():
    out = []
    for d in declarations():
        fname = 'request_id'
        sel_field = fname if d['position'] == 'top' else f'inner.{fname}'
        out.append(dict(id='decl/' + decl_id(d), fields=[(fname, d)], methods={'Do': 'unary'}, settings=[('Do', [sel_field])],
                        accept=decl_ok(d), drive=[('Do', [(fname, d)])] if decl_ok(d) else []))
    for c in list(out):
        out.append(dict(c, id=c['id'] + '+long_running', long_running=True))
    # the second template set (sync client only) on the accepted single-field declarations and the multi-method states
    for c in list(out):
        if c['accept'] and c['drive'] and not c.get('long_running'):
            out.append(dict(c, id=c['id'] + '|ads-templates', ads=True))
    # the same judgement when every file of the API lives in a proto sub-package
    for c in list(out):
        if c['id'] in ('decl/plain/unannotated/non-required/string/top', 'decl/plain/uuid4/required/string/top',
                       'decl/plain/uuid4/non-required/bytes/top', 'decl/plain/uuid4/non-required/string/nested'):
            out.append(dict(c, id=c['id'] + '|subpackages-only', layout='subpackages'))
    # a *repeated* string is not "a string" field
    out.append(dict(id='decl/repeated-string', fields=[('request_id', dict(GOOD, repeated=True))], methods={'Do': 'unary'},
                    settings=[('Do', ['request_id'])], accept=False, drive=[]))
    # several field behaviours on the field: REQUIRED disqualifies it wherever it stands in the list
    from google.api import field_behavior_pb2 as fb
    for bid, beh, ok in (('input-only+required', [fb.INPUT_ONLY, fb.REQUIRED], False), ('immutable+required+input-only', [fb.IMMUTABLE, fb.REQUIRED, fb.INPUT_ONLY], False),
                         ('required+input-only', [fb.REQUIRED, fb.INPUT_ONLY], False), ('input-only+immutable', [fb.INPUT_ONLY, fb.IMMUTABLE], True),
                         ('optional+input-only', [fb.OPTIONAL, fb.INPUT_ONLY], True)):
        d_ = dict(GOOD, behaviors=beh, required=not ok)
        out.append(dict(id=f'decl/behaviours/{bid}', fields=[('request_id', d_)], methods={'Do': 'unary'}, settings=[('Do', ['request_id'])],
                        accept=ok, drive=[('Do', [('request_id', d_)])] if ok else []))
    for kind in ('server-streaming', 'client-streaming', 'bidi'):
        out.append(dict(id=f'method/{kind}', fields=[('request_id', GOOD)], methods={'Do': kind}, settings=[('Do', ['request_id'])],
                        accept=False, drive=[]))
    out.append(dict(id='method/server-streaming|subpackages-only', fields=[('request_id', GOOD)], methods={'Do': 'server-streaming'},
                    settings=[('Do', ['request_id'])], accept=False, drive=[], layout='subpackages'))
    out.append(dict(id='duplicate-selector|subpackages-only', fields=[('request_id', GOOD)], methods={'Do': 'unary'},
                    settings=[('Do', ['request_id']), ('Do', ['request_id'])], accept=False, drive=[], layout='subpackages'))
    out.append(dict(id='method/missing', fields=[('request_id', GOOD)], methods={'Do': 'unary'}, settings=[('Nope', ['request_id'])],
                    accept=False, drive=[]))
    for cid, sel in (('method/other-version', 'acme.auto.v2.Auto.Do'), ('method/other-package', 'acme.otto.v1.Auto.Do'),
                     ('method/unqualified', 'Auto.Do'), ('method/foreign-api', 'google.longrunning.Operations.GetOperation')):
        out.append(dict(id=cid, fields=[('request_id', GOOD)], methods={'Do': 'unary'}, settings=[('RAW:' + sel, ['request_id'])],
                        accept=False, drive=[]))
    out.append(dict(id='field/missing', fields=[('request_id', GOOD)], methods={'Do': 'unary'}, settings=[('Do', ['no_such_field'])],
                    accept=False, drive=[]))
    out.append(dict(id='duplicate-selector', fields=[('request_id', GOOD)], methods={'Do': 'unary'},
                    settings=[('Do', ['request_id']), ('Do', ['request_id'])], accept=False, drive=[]))
    # the same selector twice with *different* content (wave 7): still a duplicate, whatever the entries carry
    out.append(dict(id='duplicate-selector/different-fields', fields=[('request_id', GOOD), ('other_id', GOOD_OPT)], methods={'Do': 'unary'},
                    settings=[('Do', ['request_id']), ('Do', ['other_id'])], accept=False, drive=[]))
    out.append(dict(id='duplicate-selector/first-without-fields', fields=[('request_id', GOOD)], methods={'Do': 'unary'},
                    settings=[('Do', []), ('Do', ['request_id'])], accept=False, drive=[]))
    out.append(dict(id='duplicate-selector/polling-entry-then-fields', fields=[('request_id', GOOD)], methods={'Do': 'unary'},
                    settings=[('POLL:Do', []), ('Do', ['request_id'])], accept=False, drive=[]))
    out.append(dict(id='two-fields/both-valid', fields=[('request_id', GOOD), ('other_id', GOOD_OPT)], methods={'Do': 'unary'},
                    settings=[('Do', ['request_id', 'other_id'])], accept=True,
                    drive=[('Do', [('request_id', GOOD), ('other_id', GOOD_OPT)])]))
    out.append(dict(id='two-fields/one-invalid', fields=[('request_id', GOOD), ('other_id', dict(GOOD, annotated=False))],
                    methods={'Do': 'unary'}, settings=[('Do', ['request_id', 'other_id'])], accept=False, drive=[]))
    out.append(dict(id='two-methods', fields=[('request_id', GOOD), ('other_id', GOOD_OPT)], methods={'Do': 'unary', 'Undo': 'unary', 'Plain': 'unary'},
                    settings=[('Do', ['request_id']), ('Undo', ['other_id'])], accept=True,
                    drive=[('Do', [('request_id', GOOD)]), ('Undo', [('other_id', GOOD_OPT)]), ('Plain', [])]))
    # two services, each with its own auto-populated field; the service listed *later* in the settings comes first in the file
    out.append(dict(id='two-services', fields=[('request_id', GOOD), ('other_id', GOOD_OPT)], methods={'Redo': 'unary', 'Do': 'unary'},
                    services={'Redo': 'Second'}, settings=[('Do', ['request_id']), ('Redo', ['other_id'])], accept=True,
                    drive=[('Do', [('request_id', GOOD)]), ('Redo', [('other_id', GOOD_OPT)])]))
    out.append(dict(id='two-services/one-plain', fields=[('request_id', GOOD)], methods={'Do': 'unary', 'Redo': 'unary'},
                    services={'Do': 'Second'}, settings=[('Do', ['request_id'])], accept=True,
                    drive=[('Do', [('request_id', GOOD)]), ('Redo', [])]))
    out.append(dict(id='no-fields-listed', fields=[('request_id', GOOD)], methods={'Do': 'server-streaming'}, settings=[('Do', [])],
                    accept=True, drive=[]))
    out.append(dict(id='reserved-name/format', fields=[('format', GOOD)], methods={'Do': 'unary'}, settings=[('Do', ['format'])],
                    accept=True, drive=[('Do', [('format', GOOD)])]))
    out.append(dict(id='reserved-name/type-optional', fields=[('type', GOOD_OPT)], methods={'Do': 'unary'}, settings=[('Do', ['type'])],
                    accept=True, drive=[('Do', [('type', GOOD_OPT)])]))
    for c in list(out):
        if c['id'] in ('two-methods', 'two-services', 'two-fields/both-valid'):
            out.append(dict(c, id=c['id'] + '|ads-templates', ads=True))
    for c in list(out):
        if c['id'] == 'two-methods':
            # only Plain (no settings) / only Do (settings) is listed; the others are emitted as internal methods of BaseAutoClient
            out.append(dict(c, id=c['id'] + '|selective-internal/plain-listed', selective=['Plain']))
            out.append(dict(c, id=c['id'] + '|selective-internal/do-listed', selective=['Do']))
    return out


def make_job(case):
    req, of = build(case)
    return dict(id=case['id'], req=req.SerializeToString(), opt_files=of, probe='mc.probes.autopop' if case['drive'] else None,
                probe_args=dict(package=P if case.get('ads') else names.import_package(P), proto_package=P, no_aio=bool(case.get('ads')),
                                drive=[[m, [[n, d['optional']] for n, d in fs],
                                        ('Base' if case.get('selective') is not None else '') + case.get('services', {}).get(m, 'Auto')]
                                       for m, fs in case['drive']],
                                method_prefix='_', internal_methods=([m for m in case['methods'] if m not in case['selective']]
                                                                     if case.get('selective') is not None else []),
                                all_auto=[n for n, d in case['fields']]),
                _case=case)


def run(ctx, only=None):
    cs = [c for c in cases() if not only or c['id'] == only['case']]
    jobs = [make_job(c) for c in cs]
    ctx.log(f'{len(jobs)} settings states')
    driven = 0
    for job, res in zip(jobs, engine.run_jobs(jobs)):
        c = job['_case']
        st = dict(case=c['id'])
        ctx.state(1, transitions=len(c['settings']))
        ctx.validated_n(1)
        ctx.evaluated(1)
        ok = res['gen']['ok']
        ctx.outcome(('accepted' if ok else 'rejected:' + res['gen']['etype']) + ('' if ok == c['accept'] else ' (WRONG)'))
        if ok != c['accept']:
            ctx.violation(f'{c["id"]}|{"accepted" if ok else "rejected"}',
                          f'{c["id"]}: generation {"succeeded" if ok else "failed (" + res["gen"]["etype"] + ": " + res["gen"]["emsg"][:150] + ")"}'
                          f', AIP-4235 predicate says {"accept" if c["accept"] else "reject"}', st)
            continue
        if not ok:
            if res['gen']['etype'] not in ('MethodSettingsError',):
                ctx.violation(f'{c["id"]}|rejected-with:{res["gen"]["etype"]}', f'{c["id"]}: rejected, but by an unrelated '
                              f'{res["gen"]["etype"]}: {res["gen"]["emsg"][:200]} ({res["gen"]["where"]})', st)
            continue
        if not c['drive']:
            continue
        if 'probe_error' in res:
            raise HarnessError(f'C18 probe {c["id"]}: ' + res['probe_error'][-2000:])
        obs = res['obs']
        if obs.get('import_error'):
            e = obs['import_error']
            ctx.violation(f'{c["id"]}|import:{e["etype"]}', f'{c["id"]}: library does not import: {e["emsg"][:300]}', st)
            continue
        ctx.evaluated(obs['calls'])
        driven += obs['calls']
        for k in obs['nontrivial']:
            ctx.nontrivial_case(f'{c["id"]}|{k}')
        for s in obs['samples']:
            ctx.sample(dict(case=c['id'], **s), limit=3)
        for f in obs['failures']:
            ctx.violation(f'{c["id"]}|{f["path"]}|{f["kind"]}', f'{c["id"]} {f["method"]} via {f["path"]} field={f["field"]} state={f["state"]}: '
                          f'{f["kind"]}: {f["detail"]}', st)
    if not only and driven < 100 and not ctx.violations:
        raise HarnessError(f'C18 exploration collapsed: {driven} driven calls')
    ctx.extra['bound'] = 'complete product of single-field declarations; 3 calls per (field state, path)'


def replay(ctx, state):
    run(ctx, only=state)
