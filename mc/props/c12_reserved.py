"""C12 -- reserved-word and colliding names are disambiguated without altering the wire.

Finite space enumerated completely: every word of the (frozen) reserved list and every
Python keyword x every position the word can occupy, plus control-word proto file names and
module-name collisions.  One library per position packs all words; a pack that fails to
generate or import is re-run word by word (isolation), so every failure is attributed to
single (position, word) cells.  Each cell is driven over gRPC and REST and the wire is
judged by the input descriptors.
"""
import keyword

from .. import desc, engine
from ..desc import field, message, method, service, file, request, EMPTY
from ..ref import names
from ..report import HarnessError

RULE = ('cells = (reserved words U Python keywords) x 13 positions + control-word file names + module collisions, complete; '
        'packed per position, isolated per word on failure; per cell one driven call on gRPC and on REST: python name has '
        'exactly one trailing underscore, wire/JSON/URL/routing keys/RPC path keep the original; non-trivial = distinct cells '
        'with >=1 wire observation')

P = 'acme.kw.v1'
Q = lambda n: f'.{P}.{n}'
WORDS = sorted(set(names.RESERVED) | set(keyword.kwlist))
POSITIONS = ['top-field', 'nested-field', 'flattened', 'flattened-dotted', 'flattened-dotted-first', 'path-var', 'path-var-dotted-first',
             'path-var-dotted-last', 'body-field', 'routing-field', 'required-query', 'required-query-default', 'rpc-name', 'rpc-name-capitalised',
             'file-name']
CONTROL_FILE_WORDS = ['metadata', 'retry', 'timeout', 'request']


def ident(i):
    return f'W{i}'


def build(position, words):
    """-> (request, cells)"""
    msgs = [message('Resp', [field('ok', 1, 'bool')]), message('Named', [field('name', 1, 'string'), field('other', 2, 'string')])]
    meths, cells, files = [], [], []
    widx = {w: WORDS.index(w) if w in WORDS else 900 + CONTROL_FILE_WORDS.index(w) for w in words}
    if position in ('top-field', 'nested-field'):
        inner = message('Holder', [field(w, i + 1, 'string') for i, w in enumerate(words)])
        msgs.append(inner)
        if position == 'nested-field':
            msgs.append(message('Outer', [field('holder', 1, Q('Holder')), field('tag', 2, 'string')]))
        rq = Q('Outer') if position == 'nested-field' else Q('Holder')
        meths.append(method('Echo', rq, Q('Resp'), http=('post', '/v1/echo', '*')))
        for w in words:
            cells.append(dict(word=w, rpc='Echo', py='echo', req=rq))
    elif position in ('flattened', 'flattened-dotted'):
        msgs.append(message('Holder', [field(w, i + 1, 'string') for i, w in enumerate(words)]))
        msgs.append(message('Outer', [field('holder', 1, Q('Holder')), field('tag', 2, 'string')]))
        for w in words:
            rpc = f'Flat{widx[w]}'
            sig = w if position == 'flattened' else f'holder.{w}'
            rq = Q('Holder') if position == 'flattened' else Q('Outer')
            meths.append(method(rpc, rq, Q('Resp'), http=('post', f'/v1/flat/{widx[w]}', '*'), sigs=[sig]))
            cells.append(dict(word=w, rpc=rpc, py=names.py_method(rpc), req=rq))
    elif position == 'flattened-dotted-first':
        for w in words:
            i = widx[w]
            msgs.append(message(f'Rq{i}', [field(w, 1, Q('Named')), field('extra', 2, 'string')]))
            rpc = f'Flat{i}'
            meths.append(method(rpc, Q(f'Rq{i}'), Q('Resp'), http=('post', f'/v1/flatf/{i}', '*'), sigs=[f'{w}.name']))
            cells.append(dict(word=w, rpc=rpc, py=names.py_method(rpc), req=Q(f'Rq{i}')))
    elif position in ('path-var', 'path-var-dotted-first', 'path-var-dotted-last', 'body-field', 'routing-field', 'required-query',
                      'required-query-default'):
        for w in words:
            i = widx[w]
            rq = f'Rq{i}'
            rpc = f'Call{i}'
            if position == 'path-var':
                msgs.append(message(rq, [field(w, 1, 'string'), field('extra', 2, 'string')]))
                http = ('get', f'/v1/pv/{i}/{{{w}=items/*}}')
            elif position == 'path-var-dotted-first':
                msgs.append(message(rq, [field(w, 1, Q('Named')), field('extra', 2, 'string')]))
                http = ('post', f'/v1/pvf/{i}/{{{w}.name=items/*}}', '*')
            elif position == 'path-var-dotted-last':
                msgs.append(message(f'In{i}', [field(w, 1, 'string'), field('other', 2, 'string')]))
                msgs.append(message(rq, [field('inner', 1, Q(f'In{i}')), field('extra', 2, 'string')]))
                http = ('post', f'/v1/pvl/{i}/{{inner.{w}=items/*}}', '*')
            elif position == 'body-field':
                msgs.append(message(rq, [field(w, 1, Q('Named')), field('extra', 2, 'string')]))
                http = ('post', f'/v1/bf/{i}', w)
            elif position in ('required-query', 'required-query-default'):
                # a REQUIRED field that travels as query parameter: sent under its proto/JSON name, also when left at its default
                msgs.append(message(rq, [field(w, 1, 'string', required=True), field('extra', 2, 'string')]))
                http = ('get', f'/v1/rq/{i}')
            else:
                msgs.append(message(rq, [field(w, 1, 'string'), field('extra', 2, 'string')]))
                http = ('post', f'/v1/rf/{i}', '*')
            meths.append(method(rpc, Q(rq), Q('Resp'), http=http, routing=[(w, '')] if position == 'routing-field' else None))
            cells.append(dict(word=w, rpc=rpc, py=names.py_method(rpc), req=Q(rq), http=list(http)))
    elif position in ('rpc-name', 'rpc-name-capitalised'):
        msgs.append(message('Rq', [field('name', 1, 'string')]))
        for w in words:
            rpc = w if position == 'rpc-name' else w[0].upper() + w[1:]
            meths.append(method(rpc, Q('Rq'), Q('Resp'), http=('post', f'/v1/rpc/{widx[w]}', '*')))
            lower = names.snake(rpc)
            cells.append(dict(word=w, rpc=rpc, py=lower + '_' if keyword.iskeyword(lower) else lower, req=Q('Rq')))
    elif position == 'file-name':
        # one extra target file per word, each defining a message used by a method of the main file
        for w in words:
            i = widx[w]
            fw = file(f'acme/kw/v1/{w}.proto', P, messages=[message(f'InFile{i}', [field('v', 1, 'string')])])
            fw.dependency.extend(desc.std_dep_names())
            files.append(fw)
            meths.append(method(f'Use{i}', Q(f'InFile{i}'), Q(f'InFile{i}'), http=('post', f'/v1/fn/{i}', '*')))
            cells.append(dict(word=w, rpc=f'Use{i}', py=f'use{i}', req=Q(f'InFile{i}'), resp=Q(f'InFile{i}')))
    main = file('acme/kw/v1/main_service.proto', P, messages=msgs, services=[service('Kw', meths)])
    main.dependency.extend(desc.std_dep_names() + [f.name for f in files])
    req = request(files + [main], 'transport=grpc+rest,autogen-snippets=false')
    desc.gate(req)
    for c in cells:
        c['position'] = position
        c['id'] = f'{position}|{c["word"]}'
    return req, cells


def gate_ok(position, words):
    try:
        build(position, words)
        return True
    except desc.GateError:
        return False


def words_for(position):
    ws = list(WORDS)
    if position == 'file-name':
        ws = [w for w in ws if w not in ('__peg_parser__',)] + CONTROL_FILE_WORDS
    if position in ('rpc-name', 'rpc-name-capitalised'):
        # an RPC cannot be called None/True/False twice after capitalisation; keep distinct spellings only
        seen, out = set(), []
        for w in ws:
            k = w if position == 'rpc-name' else w[0].upper() + w[1:]
            if k not in seen:
                seen.add(k)
                out.append(w)
        ws = out
    return ws


def make_job(position, words):
    req, cells = build(position, words)
    return dict(id=f'{position}:{len(words)}:{words[0]}', req=req.SerializeToString(), probe='mc.probes.reserved',
                probe_args=dict(package=names.import_package(P), proto_package=P, cells=cells), _position=position,
                _words=words, _cells=cells)


def collision_jobs():
    """Module-name collisions across packages, fields/messages named like imported modules."""
    jobs = []
    op1, op2 = 'acme.other.v1', 'acme.third.v1'
    d1 = file('acme/other/v1/common.proto', op1, messages=[message('Money', [field('units', 1, 'int64')])])
    d2 = file('acme/third/v1/common.proto', op2, messages=[message('Stamp', [field('at', 1, 'int64')])])
    local = file('acme/kw/v1/common.proto', P, messages=[message('Local', [field('x', 1, 'string')])])
    msgs = [message('Resp', [field('ok', 1, 'bool')]),
            message('Both', [field('local', 1, Q('Local')), field('money', 2, f'.{op1}.Money'), field('stamp', 3, f'.{op2}.Stamp'),
                             field('common', 4, 'string'), field('common_pb2', 5, 'string'), field('main_service', 6, 'string'),
                             field('timestamp_pb2', 7, 'string'), field('ts', 8, '.google.protobuf.Timestamp'),
                             field('lines', 9, Q('Both.Line'), repeated=True)],
                    # a *nested* message that uses the aliased modules as well
                    nested=[message('Line', [field('local', 1, Q('Local')), field('money', 2, f'.{op1}.Money'),
                                             field('stamp', 3, f'.{op2}.Stamp'), field('note', 4, 'string')])]),
            message('Common', [field('v', 1, 'string')]), message('MainService', [field('v', 1, 'string')])]
    meths = [method('EchoBoth', Q('Both'), Q('Both'), http=('post', '/v1/both', '*'), sigs=['local,money,stamp,common', 'common_pb2,main_service,timestamp_pb2,ts']),
             method('EchoCommon', Q('Common'), Q('MainService'), http=('post', '/v1/common', '*'))]
    main = file('acme/kw/v1/main_service.proto', P, messages=msgs, services=[service('Kw', meths)])
    std = desc.std_dep_names()
    for f in (d1, d2, local):
        f.dependency.extend(std)
    main.dependency.extend(std + [d1.name, d2.name, local.name])
    req = request([local, main], 'transport=grpc+rest,autogen-snippets=false', extra_dep_files=[d1, d2])
    desc.gate(req)
    cells = [dict(id='collision|modules', position='collision', word='common', rpc='EchoBoth', py='echo_both', req=Q('Both'), resp=Q('Both')),
             dict(id='collision|message-like-module', position='collision', word='Common', rpc='EchoCommon', py='echo_common',
                  req=Q('Common'), resp=Q('MainService'))]
    jobs.append(dict(id='collision', req=req.SerializeToString(), probe='mc.probes.reserved',
                     pb2_files=[d1.SerializeToString(), d2.SerializeToString()],
                     probe_args=dict(package=names.import_package(P), proto_package=P, cells=cells), _position='collision',
                     _words=['common'], _cells=cells))
    # two *target* files with the same base name, one in the API package and one in a sub-package; no single message refers to both
    sp = P + '.sub'
    root_common = file('acme/kw/v1/common.proto', P, messages=[message('Shared', [field('root_value', 1, 'string')])],
                       enums=[desc.enum('SharedKind', 'SHARED_KIND_UNSPECIFIED', 'BIG')])
    sub_common = file('acme/kw/v1/sub/common.proto', sp, messages=[message('Shared', [field('sub_value', 2, 'string')])])
    # Alpha also has a field named like the module, followed by enum-typed fields that need the (aliased) module again
    msgs = [message('Alpha', [field('name', 1, 'string'), field('item', 2, Q('Shared')), field('common', 3, 'string'),
                              field('kind', 4, 'enum:' + Q('SharedKind')), field('max_kind', 5, 'enum:' + Q('SharedKind')),
                              field('rows', 6, Q('Alpha.Row'), repeated=True)],
                    # a nested message that needs the aliased module as well
                    nested=[message('Row', [field('item', 1, Q('Shared')), field('kind', 2, 'enum:' + Q('SharedKind')), field('n', 3, 'int32')])]),
            message('Beta', [field('name', 1, 'string'), field('item', 2, f'.{sp}.Shared')])]
    main = file('acme/kw/v1/main_service.proto', P, messages=msgs, services=[service('Kw', [
        method('EchoAlpha', Q('Alpha'), Q('Alpha'), http=('post', '/v1/alpha', '*')),
        method('EchoBeta', Q('Beta'), Q('Beta'), http=('post', '/v1/beta', '*'))])])
    for f in (root_common, sub_common):
        f.dependency.extend(std)
    main.dependency.extend(std + [root_common.name, sub_common.name])
    req = request([root_common, sub_common, main], 'transport=grpc+rest,autogen-snippets=false')
    desc.gate(req)
    cells = [dict(id='collision|same-basename-root-type', position='collision', word='common', rpc='EchoAlpha', py='echo_alpha', req=Q('Alpha'),
                  resp=Q('Alpha'), dict_request=True),
             dict(id='collision|same-basename-subpackage-type', position='collision', word='common', rpc='EchoBeta', py='echo_beta', req=Q('Beta'),
                  resp=Q('Beta'), dict_request=True)]
    jobs.append(dict(id='collision-subpackage', req=req.SerializeToString(), probe='mc.probes.reserved',
                     probe_args=dict(package=names.import_package(P), proto_package=P, cells=cells), _position='collision',
                     _words=['common'], _cells=cells))
    # a dependency package that is itself a proto-plus library (option proto-plus-deps) and has a module of the same base name as
    # a file of the API: its types are imported under an alias, too
    pd = 'acme.catalog.v1'
    cat = file('acme/catalog/v1/common.proto', pd, messages=[message('Tag', [field('label', 1, 'string'), field('weight', 2, 'int32')])])
    cat.dependency.extend(std)
    pre_req = request([cat], 'transport=grpc,autogen-snippets=false')
    desc.gate(pre_req)
    local = file('acme/kw/v1/common.proto', P, messages=[message('Local', [field('x', 1, 'string')])])
    msgs = [message('Tagged', [field('local', 1, Q('Local')), field('tag', 2, f'.{pd}.Tag'), field('common', 3, 'string'),
                               field('tags', 4, f'.{pd}.Tag', repeated=True), field('parts', 5, Q('Tagged.Part'), repeated=True)],
                    nested=[message('Part', [field('tag', 1, f'.{pd}.Tag'), field('local', 2, Q('Local'))])])]
    main = file('acme/kw/v1/main_service.proto', P, messages=msgs, services=[service('Kw', [
        method('EchoTagged', Q('Tagged'), Q('Tagged'), http=('post', '/v1/tagged', '*'), sigs=['local,tag,common'])])])
    local.dependency.extend(std)
    main.dependency.extend(std + [cat.name, local.name])
    req = request([local, main], f'transport=grpc+rest,autogen-snippets=false,proto-plus-deps={pd}', extra_dep_files=[cat])
    desc.gate(req)
    cells = [dict(id='collision|proto-plus-dependency-module', position='collision', word='common', rpc='EchoTagged', py='echo_tagged',
                  req=Q('Tagged'), resp=Q('Tagged'))]
    jobs.append(dict(id='collision-proto-plus-deps', req=req.SerializeToString(), probe='mc.probes.reserved',
                     pre=[dict(id='c12-pp-pre', req=pre_req.SerializeToString())],
                     probe_args=dict(package=names.import_package(P), proto_package=P, cells=cells), _position='collision',
                     _words=['common'], _cells=cells))
    # an API file with the base name of a dependency file it imports (status.proto <- google/rpc/status.proto)
    st = file('acme/kw/v1/status.proto', P, messages=[
        message('ShelfStatus', [field('name', 1, 'string'), field('last_error', 2, '.google.rpc.Status'),
                                field('history', 3, '.google.rpc.Status', repeated=True)])],
        services=[service('Kw', [method('EchoStatus', Q('ShelfStatus'), Q('ShelfStatus'), http=('post', '/v1/status', '*'))])])
    mods = ['google.rpc.status_pb2']
    st.dependency.extend(desc.std_dep_names(mods))
    req = request([st], 'transport=grpc+rest,autogen-snippets=false', extra_dep_modules=mods)
    desc.gate(req)
    cells = [dict(id='collision|api-file-named-like-dependency-file', position='collision', word='status', rpc='EchoStatus', py='echo_status',
                  req=Q('ShelfStatus'), resp=Q('ShelfStatus'))]
    jobs.append(dict(id='collision-dependency-basename', req=req.SerializeToString(), probe='mc.probes.reserved',
                     probe_args=dict(package=names.import_package(P), proto_package=P, cells=cells), _position='collision',
                     _words=['status'], _cells=cells))
    # a clash that exists at service level only: the one RPC's request comes from the API's own book.proto, its response from the
    # same-named file of a proto-plus dependency; no message refers to both
    pd2 = 'acme.shared.v1'
    dep_book = file('acme/shared/v1/book.proto', pd2, messages=[message('Book', [field('title', 1, 'string'), field('pages', 2, 'int32')])])
    dep_book.dependency.extend(std)
    pre2 = request([dep_book], 'transport=grpc,autogen-snippets=false')
    desc.gate(pre2)
    own = file('acme/kw/v1/book.proto', P, messages=[message('GetBookRequest', [field('name', 1, 'string')])],
               services=[service('Kw', [method('GetBook', Q('GetBookRequest'), f'.{pd2}.Book', http=('post', '/v1/book:get', '*'))])])
    own.dependency.extend(std + [dep_book.name])
    req = request([own], f'transport=grpc+rest,autogen-snippets=false,proto-plus-deps={pd2}', extra_dep_files=[dep_book])
    desc.gate(req)
    cells = [dict(id='collision|service-level-only', position='collision', word='book', rpc='GetBook', py='get_book',
                  req=Q('GetBookRequest'), resp=f'.{pd2}.Book')]
    jobs.append(dict(id='collision-service-level', req=req.SerializeToString(), probe='mc.probes.reserved',
                     pre=[dict(id='c12-pp-pre2', req=pre2.SerializeToString())],
                     probe_args=dict(package=names.import_package(P), proto_package=P, cells=cells), _position='collision',
                     _words=['book'], _cells=cells))
    return jobs


def consume(ctx, job, res, isolated):
    """-> True if the pack as a whole failed (generation or import) and needs isolation."""
    pos = job['_position']
    if not res['gen']['ok']:
        if len(job['_words']) > 1 and not isolated:
            return True
        for c in job['_cells']:
            ctx.violation(f'{c["id"]}|generation:{res["gen"]["etype"]}', f'{c["id"]}: generator raised {res["gen"]["etype"]}: '
                          f'{res["gen"]["emsg"][:200]} ({res["gen"]["where"]})', dict(position=pos, words=[c['word']]))
        return False
    if 'probe_error' in res:
        raise HarnessError(f'C12 probe {job["id"]}: ' + res['probe_error'][-2000:])
    obs = res['obs']
    if obs.get('import_error'):
        if len(job['_words']) > 1 and not isolated:
            return True
        e = obs['import_error']
        for c in job['_cells']:
            ctx.violation(f'{c["id"]}|import:{e["etype"]}', f'{c["id"]}: library does not import: {e["etype"]}: {e["emsg"][:200]}',
                          dict(position=pos, words=[c['word']]))
        return False
    ctx.evaluated(obs['calls'])
    for k in obs['nontrivial']:
        ctx.nontrivial_case(k)
    for k, v in obs['outcomes'].items():
        ctx.outcome(k, v)
    for s in obs['samples']:
        ctx.sample(s)
    for f in obs['failures']:
        ctx.violation(f'{f["cell"]}|{f["path"]}|{f["kind"]}', f'{f["cell"]} via {f["path"]}: {f["kind"]}: {f["detail"]}',
                      dict(position=pos, words=[f['cell'].split('|')[1]]))
    return False


def run(ctx, only=None):
    jobs = []
    for pos in POSITIONS:
        if only and only['position'] != pos:
            continue
        ws = only['words'] if only else words_for(pos)
        jobs.append(make_job(pos, ws))
    if not only or only['position'] == 'collision':
        jobs += collision_jobs()
    n_cells = sum(len(j['_cells']) for j in jobs)
    ctx.log(f'{n_cells} cells in {len(jobs)} packs')
    retry = []
    for job, res in zip(jobs, engine.run_jobs(jobs)):
        if consume(ctx, job, res, isolated=False):
            ctx.log(f'pack {job["id"]} failed as a whole ({res["gen"].get("etype") or res["obs"]["import_error"]["etype"]}); isolating {len(job["_words"])} words')
            retry += [make_job(job['_position'], [w]) for w in job['_words']]
    for job, res in zip(retry, engine.run_jobs(retry)):
        consume(ctx, job, res, isolated=True)
    ctx.state(n_cells, transitions=n_cells + len(retry))
    ctx.validated_n(n_cells)
    ctx.extra['isolation_runs'] = len(retry)
    ctx.extra['words'] = len(WORDS)
    ctx.extra['bound'] = 'complete: every word x every position'


def replay(ctx, state):
    run(ctx, only=state)
