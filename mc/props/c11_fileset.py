"""C11 -- the emitted file set is well-formed and placed by package-derived naming.

States = package shape x version x target-file layout x dependency-only files x proto file
name (complete product of tiny APIs) and, on a covering subset, every single option-string
edit.  The real generator is run on every state (in-process; a VERIF_SEED-rotated subset
also through the CLI in a fresh process, byte-compared) and the response's file names are
judged against a reference layout derived from the request alone.
"""
import itertools
import os
import posixpath
import re

from .. import desc, engine
from ..desc import field, message, method, service, file, request
from ..ref import names
from ..report import HarnessError

RULE = ('states = namespace depth(4) x version(5) x file layout(3, + a service-only target file) x dependency files(3) x proto file name(11) tiny APIs + '
        'every single option-string edit on a covering subset; oracle = reference layout/naming rules on file[*].name, '
        'supported_features, byte-identity for ignored options; non-trivial = distinct states whose response had >= 20 files')

NAMESPACES = {0: (), 1: ('acme',), 2: ('acme', 'cloud'), 3: ('acme', 'cloud', 'deep')}
VERSIONS = ['v1', 'v1beta1', 'v1p1beta1', 'v2alpha', '']
LAYOUTS = ['one', 'two', 'two+sub', 'two+svc-only', 'siblings']
DEPS = ['none', 'wkt', 'foreign']
FNAMES = {'plain': ['widgets'], 'dotted': ['my.file'], 'keyword': ['import'], 'control-metadata': ['metadata'],
          'control-request': ['request'], 'camel': ['MyWidgets'], 'hyphen': ['my-widgets'],
          'same-after-sanitising': ['my-file', 'my_file'], 'underscore-then-dot': ['my_file', 'my.file'],
          'dot-then-underscore': ['my.file', 'my_file'], 'keyword-and-suffixed': ['import_', 'import']}

OPTION_EDITS = {
    # name: (option string, kind) kind: 'same' -> byte-identical to the empty option string; 'ok' -> must not fail;
    # ('naming', name, namespace) -> layout follows the override
    'metadata': ('metadata', 'ok'), 'grpc': ('transport=grpc', 'same'), 'rest': ('transport=rest', 'ok'),
    'grpc+rest': ('transport=grpc+rest', 'ok'), 'numeric-enums': ('rest-numeric-enums', 'ok'),
    'no-snippets': ('autogen-snippets=false', 'ok'), 'lazy-import': ('lazy-import', 'ok'),
    'add-iam': ('add-iam-methods', 'ok'), 'warehouse': ('warehouse-package-name=foo-bar-dist', 'ok'),
    'name': ('python-gapic-name=gadgets', ('naming', 'gadgets', None)),
    'namespace1': ('python-gapic-namespace=zeta', ('naming', None, ('zeta',))),
    'namespace-dotted': ('python-gapic-namespace=zeta.eta', ('naming', None, ('zeta', 'eta'))),
    'namespace-repeated': ('python-gapic-namespace=zeta,python-gapic-namespace=eta', ('naming', None, ('zeta', 'eta'))),
    'name-two-words': ('python-gapic-name=big_gadgets', ('naming', 'big_gadgets', None)),
    'name-two-words+namespace': ('python-gapic-namespace=zeta.eta,python-gapic-name=big_gadget_works', ('naming', 'big_gadget_works', ('zeta', 'eta'))),
    'name+namespace': ('python-gapic-name=gadgets,python-gapic-namespace=zeta', ('naming', 'gadgets', ('zeta',))),
    'unknown-bare': ('frobnicate', 'same'), 'unknown-kv': ('frob=nicate', 'same'),
    'unknown-other-plugin': ('go-gapic-package=x/y;z', 'same'), 'unknown-python-gapic': ('python-gapic-frob=1', 'same'),
    'blanks': (' transport=grpc ', 'same'), 'empty-items': (',,transport=grpc,', 'same'), 'only-comma': (',', 'same'),
    'repeated-transport': ('transport=grpc,transport=rest', 'same'),       # first wins
    'unknown-with-equals-in-value': ('frob=a=b', 'same'),
    'known-flag-twice': ('metadata,metadata', 'ok'),
    # the second template set lays the package out as <namespace>/<name>/<version>/
    'ads': ('python-gapic-templates=ads-templates,old-naming', ('naming', None, None, 'ads')),
    # library setting unversioned_package_disabled (service YAML): the alias package <namespace>/<name>/ is not emitted, the
    # versioned package is
    'unversioned-disabled': ('service-yaml=@svc.yaml@', ('naming', None, None, 'no-alias')),
}


def build(ns_depth, version, layout, deps, fname_kind, parameter=''):
    ns = NAMESPACES[ns_depth]
    pkg = '.'.join(ns + ('widgets',) + ((version,) if version else ()))
    Q = lambda n, p=pkg: f'.{p}.{n}'
    pdir = pkg.replace('.', '/')
    stems = FNAMES[fname_kind]
    files, dep_files = [], []
    targets = []   # (file name, proto package, services)
    paged = set()
    main_msgs = [message('Widget', [field('name', 1, 'string'), field('size', 2, 'int32')]),
                 message('GetWidgetRequest', [field('name', 1, 'string')])]
    imports = []
    extra_fields = []
    if deps == 'wkt':
        extra_fields.append(field('made', 10, '.google.protobuf.Timestamp'))
    if deps == 'foreign':
        fp = 'other.things.v1'
        dep = file('other/things/v1/things.proto', fp,
                   messages=[message('Thing', [field('id', 1, 'string')]), message('ThingRequest', [field('id', 1, 'string')])],
                   services=[service('Things', [method('GetThing', f'.{fp}.ThingRequest', f'.{fp}.Thing',
                                                       http=('get', '/v1/things/{id}'))], host='things.example.com')])
        dep_files.append(dep)
        imports.append(dep.name)
        extra_fields.append(field('thing', 11, f'.{fp}.Thing'))
    main_msgs[0].field.extend(extra_fields)
    if layout == 'siblings':
        # every target file sits in a sub-package; no file in the API package itself (the googleads layout)
        fa = file(f'{pdir}/parts/{stems[0]}.proto', pkg + '.parts', messages=[
            message('Part', [field('name', 1, 'string')]), message('GetPartRequest', [field('name', 1, 'string')])])
        # a third sibling whose name has the first one's name as a textual prefix
        fc = file(f'{pdir}/partsbin/bin.proto', pkg + '.partsbin', messages=[message('Bin', [field('name', 1, 'string')])])
        fb = file(f'{pdir}/tools/tool.proto', pkg + '.tools', messages=[message('Tool', [field('name', 1, 'string'), field('part', 2, f'.{pkg}.parts.Part')])],
                  services=[service('ToolService', [method('GetPart', f'.{pkg}.parts.GetPartRequest', f'.{pkg}.parts.Part',
                                                           http=('get', '/v1/{name=parts/*}'))], host='widgets.example.com')])
        std = desc.std_dep_names()
        fa.dependency.extend(std)
        fc.dependency.extend(std)
        fb.dependency.extend(std + [fa.name])
        req = request([fa, fc, fb], parameter + (',' if parameter else '') + 'autogen-snippets=false')
        desc.gate(req)
        return req, dict(package=pkg, ns=ns, version=version, targets=[(fa.name, pkg + '.parts', []), (fc.name, pkg + '.partsbin', []),
                                                                       (fb.name, pkg + '.tools', ['ToolService'])],
                         dep_names=[], dep_services=[])
    main = file(f'{pdir}/{stems[0]}.proto', pkg, messages=main_msgs,
                services=[service('WidgetService', [method('GetWidget', Q('GetWidgetRequest'), Q('Widget'),
                                                            http=('get', '/v1/{name=widgets/*}'))], host='widgets.example.com')])
    files.append(main)
    targets.append((main.name, pkg, ['WidgetService']))
    if len(stems) > 1:
        second = file(f'{pdir}/{stems[1]}.proto', pkg, messages=[message('Gear', [field('teeth', 1, 'int32')])])
        files.append(second)
        targets.append((second.name, pkg, []))
    if layout in ('two', 'two+sub'):
        f2 = file(f'{pdir}/gadgets.proto', pkg,
                  messages=[message('Gadget', [field('name', 1, 'string')]), message('GetGadgetRequest', [field('name', 1, 'string')]),
                            message('ListGadgetsRequest', [field('parent', 1, 'string'), field('page_size', 2, 'int32'), field('page_token', 3, 'string')]),
                            message('ListGadgetsResponse', [field('gadgets', 1, Q('Gadget'), repeated=True), field('next_page_token', 2, 'string')])],
                  services=[service('GadgetService', [method('GetGadget', Q('GetGadgetRequest'), Q('Gadget'),
                                                             http=('get', '/v1/{name=gadgets/*}')),
                                                      # the only paginated method of the API: this service alone has a pagers module
                                                      method('ListGadgets', Q('ListGadgetsRequest'), Q('ListGadgetsResponse'),
                                                             http=('get', '/v1/{parent=boxes/*}/gadgets'))], host='widgets.example.com')])
        paged.add('GadgetService')
        files.append(f2)
        targets.append((f2.name, pkg, ['GadgetService']))
    svc_only = None
    if layout == 'two+svc-only':
        # a target file that declares a service and no message or enum (its request/response types live in the main file)
        svc_only = file(f'{pdir}/admin_service.proto', pkg,
                        services=[service('AdminService', [method('InspectWidget', Q('GetWidgetRequest'), Q('Widget'),
                                                                   http=('get', '/v1/{name=widgets/*}:inspect'))], host='widgets.example.com')])
        files.append(svc_only)
        targets.append((svc_only.name, pkg, ['AdminService']))
    if layout == 'two+sub':
        sp = pkg + '.parts'
        f3 = file(f'{pdir}/parts/bolts.proto', sp, messages=[message('Bolt', [field('len', 1, 'int32')])])
        files.append(f3)
        targets.append((f3.name, sp, []))
    std = desc.std_dep_names()
    for f in files + dep_files:
        f.dependency.extend(std)
    main.dependency.extend(imports)
    if svc_only is not None:
        svc_only.dependency.append(main.name)
    req = request(files, parameter, extra_dep_files=dep_files)
    desc.gate(req)
    return req, dict(package=pkg, ns=ns, version=version, targets=targets, paged=sorted(paged),
                     dep_names=[d.name for d in dep_files], dep_services=['Things'] if deps == 'foreign' else [])


LIB_TOP_OK = ('tests', 'samples', 'scripts', 'docs', 'testing')


def judge_names(res, info, naming=None):
    """-> list of (kind, detail). naming = (name override, namespace override)."""
    out = []
    names_ = res['names']
    if len(set(names_)) != len(names_):
        dup = sorted({n for n in names_ if names_.count(n) > 1})
        out.append(('duplicate-name', f'{dup[:3]}'))
    for n in names_:
        segs = n.split('/')
        if n.startswith('/') or '' in segs or '.' in segs or '..' in segs or '\\' in n or n != posixpath.normpath(n):
            out.append(('not-normalised', n))
    if not (res.get('supported_features', 0) & 1):
        out.append(('proto3-optional-not-advertised', str(res.get('supported_features'))))
    name_o, ns_o = (naming or (None, None))[:2]
    ads = bool(naming) and len(naming) > 2 and naming[2] == 'ads'
    ns = tuple(ns_o) if ns_o is not None else info['ns']
    nm = name_o or 'widgets'
    if ads:
        root = '/'.join(ns + (nm,) + ((info['version'],) if info['version'] else ()))
    else:
        root = '/'.join(ns + (nm + ('_' + info['version'] if info['version'] else ''),))
    alias = '/'.join(ns + (nm,))
    if naming and len(naming) > 2 and naming[2] == 'no-alias' and alias != root:
        for n in names_:
            if n.startswith(alias + '/'):
                out.append(('alias-package-emitted', f'{n} although the unversioned package is disabled'))
                break
        if not any(n.startswith(root + '/') for n in names_):
            out.append(('versioned-package-missing', f'nothing emitted under {root}/'))
    py = [n for n in names_ if n.endswith('.py')]
    lib_py = [n for n in py if n.split('/')[0] not in LIB_TOP_OK and '/' in n]
    for n in lib_py:
        if not (n.startswith(root + '/') or n.startswith(alias + '/')):
            out.append(('python-outside-package', f'{n} is not under {root}/ (or the alias package {alias}/)'))
    # __init__.py on every directory from the versioned root down to any module
    have = set(names_)
    for n in lib_py:
        if not n.startswith(root + '/'):
            continue
        d = posixpath.dirname(n)
        while len(d) >= len(root):
            if d + '/__init__.py' not in have:
                out.append(('missing-init', f'{d}/__init__.py (needed to import {n})'))
            if d == root:
                break
            d = posixpath.dirname(d)
    # no package directory that the request does not call for
    subs = {fpkg[len(info['package']):].strip('.').replace('.', '/') for _, fpkg, _ in info['targets']}
    bases = {root} | {root + '/' + sub for sub in subs if sub}
    ancestors = set()
    for b_ in bases:
        d = b_
        while len(d) > len(root):
            d = posixpath.dirname(d)
            ancestors.add(d)
    for n in lib_py:
        if not n.startswith(root + '/'):
            continue
        d = posixpath.dirname(n)
        if d in ancestors or any(d in (b_, b_ + '/types', b_ + '/services') or d.startswith(b_ + '/services/') for b_ in bases):
            continue
        out.append(('unexpected-directory', f'{n}: {d}/ is not a package of the API (sub-packages of the request: {sorted(x for x in subs if x)})'))
    # exactly one types module per target proto, one service package per service
    by_sub = {}
    for fname, fpkg, svcs in info['targets']:
        sub = fpkg[len(info['package']):].strip('.').replace('.', '/')
        by_sub.setdefault(sub, [0, []])
        by_sub[sub][0] += 1
        by_sub[sub][1] += svcs
    for sub, (n_protos, svcs) in by_sub.items():
        base = root + ('/' + sub if sub else '')
        tmods = [n for n in names_ if posixpath.dirname(n) == base + '/types' and not n.endswith('__init__.py')]
        if len(tmods) != n_protos:
            out.append(('types-module-count', f'{len(tmods)} modules in {base}/types for {n_protos} target protos: {sorted(tmods)}'))
        sdirs = {n[len(base + '/services/'):].split('/')[0] for n in names_
                 if n.startswith(base + '/services/') and n.count('/') > (base + '/services/').count('/')}
        exp = {names.snake(s) for s in svcs}
        if sdirs != exp:
            out.append(('service-packages', f'{sorted(sdirs)} under {base}/services, expected {sorted(exp)}'))
        # the pagers module is one of the modules that render empty (and are therefore not emitted) unless the service has a
        # paginated method
        for s_ in svcs:
            pg = f'{base}/services/{names.snake(s_)}/pagers.py'
            if (pg in names_) != (s_ in info.get('paged', ())):
                out.append(('pagers-module', f'{pg} {"emitted" if pg in names_ else "missing"} although the service has '
                                             f'{"a" if s_ in info.get("paged", ()) else "no"} paginated method'))
    # nothing for dependency-only files
    for dn in info['dep_names']:
        stem = posixpath.basename(dn)[:-len('.proto')]
        for n in names_:
            if re.search(r'(^|/)types/' + re.escape(stem) + r'\.py$', n):
                out.append(('dependency-file-emitted', n))
    for s in info['dep_services']:
        for n in names_:
            if f'/services/{names.snake(s)}/' in n or n.endswith(f'test_{names.snake(s)}.py'):
                out.append(('dependency-service-emitted', n))
    for n in names_:
        b = posixpath.basename(n)
        if b.startswith('_') and b != '__init__.py':
            out.append(('private-template-emitted', n))
    for n, content in (res.get('files') or {}).items():
        if posixpath.basename(n) in ('__init__.py', 'py.typed'):
            continue
        if not any(l.strip() and not l.strip().startswith('#') for l in content.splitlines()):
            out.append(('empty-module-emitted', n))
    return out


def state_id(s):
    return '/'.join(str(x) for x in s)


def make_job(s, opt_name=None, via='inproc'):
    ns_depth, version, layout, deps, fk = s
    param = OPTION_EDITS[opt_name][0] if opt_name else ''
    req, info = build(ns_depth, version, layout, deps, fk, param)
    of = None
    if opt_name == 'unversioned-disabled':
        of = {'svc.yaml': ('type: google.api.Service\nconfig_version: 3\nname: widgets.example.com\npublishing:\n  library_settings:\n'
                           f'  - version: {info["package"]}\n    python_settings:\n      experimental_features:\n'
                           '        unversioned_package_disabled: true\n')}
    return dict(id=state_id(s) + ('|' + opt_name if opt_name else '') + ('|cli' if via == 'cli' else ''),
                req=req.SerializeToString(), via=via, keep=['*.py'], return_response=True, materialise=False, opt_files=of,
                _state=list(s), _opt=opt_name, _info=info)


def all_states():
    for s in itertools.product(NAMESPACES, VERSIONS, LAYOUTS, DEPS, FNAMES):
        if s[1] == '' and s[2] == 'two+sub':
            continue    # the generator requires a version when target files span several proto packages
        if s[2] == 'two+svc-only' and s[4] != 'plain':
            continue    # the service-only file is crossed with package shape, version and dependencies only
        if s[2] == 'siblings' and (s[4] != 'plain' or s[3] != 'none' or s[1] == ''):
            continue    # sibling sub-packages: crossed with package shape and version (a version is required, as for two+sub)
        if s[0] == 0 and s[1] == '' :
            pass
        yield s


def covering_subset(states, n):
    """Deterministic subset in which every value of every dimension occurs."""
    chosen, seen = [], set()
    for s in states:
        new = {(i, v) for i, v in enumerate(s)} - seen
        if new:
            chosen.append(s)
            seen |= new
    step = max(1, len(states) // max(1, n - len(chosen)))
    for s in states[::step]:
        if s not in chosen and len(chosen) < n:
            chosen.append(s)
    return chosen


def run(ctx, only=None):
    states = list(all_states())
    if only:
        states = [tuple(only['state'])]
    jobs = [make_job(s) for s in states]
    sub = covering_subset(states, 60 if not ctx.thorough else 200) if not only else states
    opt_names = list(OPTION_EDITS) if not only else ([only['opt']] if only.get('opt') else [])
    for s in sub:
        for o in opt_names:
            jobs.append(make_job(s, o))
    # CLI conformance on a seed-rotated subset (every state in thorough)
    cli_states = states if ctx.thorough else states[ctx.seed % 23::23]
    cli_jobs = [make_job(s, via='cli') for s in cli_states] if not only else []
    ctx.log(f'{len(states)} package/file-layout states, {len(sub)}x{len(opt_names)} option edits, {len(cli_jobs)} CLI conformance runs')
    results = engine.run_jobs(jobs + cli_jobs, progress=500)
    base = {}
    for job, res in zip(jobs + cli_jobs, results):
        if job['_opt'] is None and job.get('via') != 'cli':
            base[tuple(job['_state'])] = res
    n_cli_ok = 0
    for job, res in zip(jobs + cli_jobs, results):
        s, o = tuple(job['_state']), job['_opt']
        st = dict(state=list(s), opt=o)
        ctx.state(1, transitions=1 if o is None else 2)
        ctx.evaluated(1)
        if job.get('via') == 'cli':
            b = base.get(s)
            if b is None or not b['gen']['ok'] or not res['gen']['ok']:
                if b is not None and b['gen']['ok'] != res['gen']['ok']:
                    raise HarnessError(f'in-process and CLI disagree on success for {state_id(s)}: {res["gen"]}')
                continue
            if b['response'] != res['response']:
                raise HarnessError(f'in-process and CLI responses differ for {state_id(s)} (harness conformance)')
            n_cli_ok += 1
            ctx.validated_n(1)
            continue
        ctx.validated_n(1)
        fk = s[4]
        if not res['gen']['ok']:
            ctx.outcome('generation-failed')
            b = base.get(s)
            if o is not None and b is not None and not b['gen']['ok'] and b['gen']['etype'] == res['gen']['etype']:
                continue    # same failure as without the option: reported once, for the base state
            ctx.violation(f'generation|{res["gen"]["etype"]}:{res["gen"]["where"]}|ns-depth={s[0]}' + (f'|opt={o}' if o else ''),
                          f'{state_id(s)} opt={OPTION_EDITS[o][0] if o else ""!r}: generator raised {res["gen"]["etype"]}: {res["gen"]["emsg"][:200]}', st)
            continue
        if len(res['names']) >= 20:
            ctx.nontrivial_case(job['id'])
        kind = OPTION_EDITS[o][1] if o else 'ok'
        naming = tuple(kind[1:]) if isinstance(kind, tuple) else None
        problems = judge_names(res, job['_info'], naming)
        if kind == 'same':
            b = base.get(s)
            if b and b['gen']['ok'] and b['response'] != res['response']:
                problems.append(('ignored-option-changed-output', f'option string {OPTION_EDITS[o][0]!r} changed the response'))
        ctx.outcome('ok' if not problems else problems[0][0])
        for k, detail in problems:
            ctx.violation(f'{k}|fname={fk}|layout={s[2]}|deps={s[3]}' + (f'|opt={o}' if o and k == 'ignored-option-changed-output' else ''),
                          f'{state_id(s)} opt={o}: {k}: {detail}', st)
        if o is None:
            ctx.sample(dict(state=list(s), package=job['_info']['package'], files=len(res['names']),
                            first_names=sorted(res['names'])[:6]), limit=3)
    ctx.extra['cli_conformance_runs'] = n_cli_ok
    ctx.extra['bound'] = 'complete product of 5 dimensions; single option edits on a covering subset'
    ctx.assume('unversioned packages with a target file in a proto sub-package are outside the space (the generator requires a version there)')


def replay(ctx, state):
    run(ctx, only=state)
