"""C02 -- generated message and enum classes are wire-compatible with the input descriptors.

Packs: (kinds) complete field-kind matrix incl. maps over all legal key types; (refs) the
reference-position matrix referrer depth x referee position x cardinality x kind; (names)
reserved-word field names and shadowing; (recursion).  For every message of every pack the
emitted class is compared with the input descriptor field by field and driven through
bounded-exhaustive valuations in both directions (dynamic message of the input pool <->
emitted class), plus JSON key names.
"""
import itertools

from .. import desc, engine
from ..desc import (field, message, enum, file, request, map_field, service, method, SCALAR_NAMES, MAP_KEY_TYPES)
from ..ref import names
from ..report import HarnessError

RULE = ('messages = field-kind matrix (17 kinds x {singular, optional, repeated, oneof}, 12 map key types x 17 value kinds) + '
        'reference-position matrix (referrer depth x 10 referee positions x 4 cardinalities x {message, enum}) + reserved-word '
        'names + recursion shapes; per message: descriptor equality, attribute names, and for every valuation {empty, each field at '
        'each palette value, explicit defaults for presence fields, all} the round trips dynamic->class->dynamic and '
        'kwargs->class->dynamic and strict JSON-key reading; non-trivial = distinct (message, valuation) with >=1 field set')

P = 'acme.wire.v1'
Q = lambda n: f'.{P}.{n}'
VALUE_KINDS = SCALAR_NAMES + ['enum', 'message']


def vtype(kind):
    return 'enum:' + Q('Hue') if kind == 'enum' else Q('Leaf') if kind == 'message' else kind


def pack_kinds():
    msgs = [message('Leaf', [field('text', 1, 'string'), field('n', 2, 'sint64')])]
    msgs.append(message('KindsSingular', [field(f'f_{k}', i + 1, vtype(k)) for i, k in enumerate(VALUE_KINDS)]))
    msgs.append(message('KindsOptional', [field(f'o_{k}', i + 1, vtype(k), optional=True) for i, k in enumerate(VALUE_KINDS)]))
    msgs.append(message('KindsRepeated', [field(f'r_{k}', i + 1, vtype(k), repeated=True) for i, k in enumerate(VALUE_KINDS)]))
    msgs.append(message('KindsOneof', [field(f'u_{k}', i + 1, vtype(k), oneof=0) for i, k in enumerate(VALUE_KINDS)], oneofs=['pick']))
    msgs.append(message('TwoOneofs', [field('a1', 1, 'string', oneof=0), field('a2', 2, 'int32', oneof=0), field('mid', 3, 'bool'),
                                      field('b1', 4, Q('Leaf'), oneof=1), field('b2', 5, 'bytes', oneof=1),
                                      field('opt', 6, 'string', optional=True)], oneofs=['first', 'second']))
    # a real oneof whose name looks like a proto3-optional synthetic one, followed by further oneofs
    msgs.append(message('UnderscoreOneof', [field('display_name', 1, 'string'), field('nickname', 2, 'string', oneof=0),
                                            field('email', 3, 'string', oneof=1), field('phone', 4, 'string', oneof=1),
                                            field('age', 5, 'int32', optional=True), field('tail', 6, 'bool', oneof=2)],
                        oneofs=['_nickname', 'channel', '_tail']))
    n = 0
    for kt in MAP_KEY_TYPES:
        fs, nested = [], []
        for i, vk in enumerate(VALUE_KINDS):
            mf, me = map_field(Q(f'Maps{kt.capitalize()}'), f'm_{vk}', i + 1, kt, vtype(vk))
            fs.append(mf)
            nested.append(me)
            n += 1
        msgs.append(message(f'Maps{kt.capitalize()}', fs, nested=nested))
    msgs.append(message('BigNumbers', [field('f1', 1, 'string'), field('f536870911', 536870911, 'int32'),
                                       field('f19000', 18999, 'bool'), field('f20000', 20000, 'string')]))
    enums = [enum('Hue', 'HUE_UNSPECIFIED', 'RED', 'GREEN'),
             enum('Aliased', ('ALIASED_UNSPECIFIED', 0), ('ONE', 1), ('UNO', 1), ('TWO', 2), allow_alias=True),
             enum('Single', 'SINGLE_UNSPECIFIED'),
             enum('Sparse', ('SPARSE_UNSPECIFIED', 0), ('TEN', 10), ('BIG', 2147483647), ('HUNDRED', 100))]
    msgs.append(message('UsesEnums', [field('a', 1, 'enum:' + Q('Aliased')), field('s', 2, 'enum:' + Q('Single')),
                                      field('p', 3, 'enum:' + Q('Sparse')), field('ps', 4, 'enum:' + Q('Sparse'), repeated=True)]))
    f = file('acme/wire/v1/kinds.proto', P, messages=msgs, enums=enums)
    return [f], []


def pack_names():
    words = sorted(names.RESERVED) + ['proto', 'pb', 'serialize', 'to_json', 'meta', 'wrap', 'fields', 'mro', 'name', 'descriptor']
    msgs = [message('ReservedNames', [field(w, i + 1, 'string' if i % 3 else 'int32') for i, w in enumerate(words)]),
            message('ReservedKinds', [field('class', 1, Q('ReservedKinds.Inner')), field('from', 2, 'string', repeated=True),
                                      field('import', 3, 'enum:' + Q('Kw')), field('in', 4, 'string', optional=True),
                                      field('not', 5, 'string', oneof=0), field('is', 6, 'int64', oneof=0),
                                      field('snake_case_field', 7, 'string'), field('with_2_digits', 8, 'string'),
                                      field('_leading', 9, 'string'), field('trailing_', 10, 'string'),
                                      field('double__under', 11, 'string'), field('UPPER', 12, 'string'),
                                      field('mixedCase', 13, 'string')],
                    nested=[message('Inner', [field('type', 1, 'string'), field('lambda', 2, 'bool')])], oneofs=['or']),
            message('Shadow', [field('leaf', 1, Q('Shadow.Leaf2')), field('top', 2, Q('Leaf2'))],
                    nested=[message('Leaf2', [field('inner_only', 1, 'string')])]),
            message('Leaf2', [field('top_only', 1, 'int32')]),
            message('proto', [field('proto', 1, 'string')]),
            # homonyms: a type nested in another message under the same simple names as the referrer's own nested type
            message('Instance', [field('config', 1, Q('Instance.Config'))],
                    nested=[message('Config', [field('disk', 1, Q('Instance.Config.Disk'))],
                                    nested=[message('Disk', [field('size_gb', 1, 'int64'), field('type', 2, 'string')])],
                                    enums=[enum('Tier', 'TIER_UNSPECIFIED', 'HOT')])]),
            message('Config', [field('boot', 1, Q('Config.Disk')), field('template_disk', 2, Q('Instance.Config.Disk')),
                               field('extra_disks', 3, Q('Instance.Config.Disk'), repeated=True),
                               field('tier', 4, 'enum:' + Q('Instance.Config.Tier')), field('own_tier', 5, 'enum:' + Q('Config.Tier'))],
                    nested=[message('Disk', [field('name', 1, 'string')])], enums=[enum('Tier', 'TIER_UNSPECIFIED', 'COLD', 'WARM')]),
            message('Disk', [field('top', 1, 'bool'), field('nested_elsewhere', 2, Q('Config.Disk'))]),
            message('Message', [field('message', 1, Q('Message')), field('field', 2, 'string')]),
            message('Field', [field('f', 1, 'string')]),
            ]
    # nested message reached through a parent field *and* through nested_messages, with a map whose value type lives in
    # another file whose module needs an alias here (a field named `common` exists in this file)
    hm, hme = map_field(Q('Holder.Nested'), 'shared_by_key', 1, 'string', Q('Shared'))
    msgs.append(message('Holder', [field('nested', 1, Q('Holder.Nested')), field('common', 2, 'string'),
                                   field('direct', 3, Q('Shared'))],
                        nested=[message('Nested', [hm, field('one', 2, Q('Shared')), field('tone', 3, 'enum:' + Q('SharedTone'))], nested=[hme])]))
    # nested fields named like the `proto` module / like a sibling module, followed by further fields
    msgs.append(message('Outer2', [field('inner', 1, Q('Outer2.Inner')), field('inner3', 2, Q('Outer2.Inner3'))],
                        nested=[message('Inner', [field('proto', 1, 'string'), field('after', 2, 'string'), field('n', 3, 'int32')]),
                                message('Inner3', [field('common', 1, 'string'), field('shared', 2, Q('Shared')),
                                                   field('tones', 3, 'enum:' + Q('SharedTone'), repeated=True)])]))
    mf, me = map_field(Q('ReservedMaps'), 'global', 1, 'string', Q('Leaf2'))
    msgs.append(message('ReservedMaps', [mf], nested=[me]))
    common = file('acme/wire/v1/common.proto', P, messages=[message('Shared', [field('s', 1, 'string')])],
                  enums=[enum('SharedTone', 'SHARED_TONE_UNSPECIFIED', 'LOUD')])
    f = file('acme/wire/v1/names.proto', P, messages=msgs, enums=[enum('Kw', 'KW_UNSPECIFIED', 'CLASS', 'Global', 'IMPORT')])
    std = desc.std_dep_names()
    common.dependency.extend(std)
    f.dependency.extend(std + [common.name])
    return [common, f], []


def keyword_enum_values_pack():
    f = file('acme/wire/v1/kwenum.proto', P, enums=[enum('Answer', 'ANSWER_UNSPECIFIED', 'None', 'True', 'False')],
             messages=[message('UsesAnswer', [field('a', 1, 'enum:' + Q('Answer'))])])
    return [f], []


def pack_recursion():
    mf, me = map_field(Q('ViaMap'), 'kids', 1, 'string', Q('ViaMap'))
    msgs = [message('SelfRef', [field('me', 1, Q('SelfRef')), field('v', 2, 'int32')]),
            message('Ping', [field('pong', 1, Q('Pong')), field('v', 2, 'string')]),
            message('Pong', [field('ping', 1, Q('Ping')), field('pings', 2, Q('Ping'), repeated=True)]),
            message('ViaRepeated', [field('kids', 1, Q('ViaRepeated'), repeated=True), field('v', 2, 'string')]),
            message('ViaMap', [mf, field('v', 2, 'string')], nested=[me]),
            message('ViaOneof', [field('leaf', 1, 'string', oneof=0), field('node', 2, Q('ViaOneof'), oneof=0)], oneofs=['kind']),
            message('NestedSelf', [field('inner', 1, Q('NestedSelf.Inner'))],
                    nested=[message('Inner', [field('outer', 1, Q('NestedSelf')), field('again', 2, Q('NestedSelf.Inner')),
                                              field('v', 3, 'string')])]),
            ]
    f = file('acme/wire/v1/recursion.proto', P, messages=msgs)
    return [f], []


REFEREES = ['itself', 'parent', 'child', 'sibling', 'other-nested', 'earlier', 'later', 'other-file', 'dep-installed', 'dep-synth']
CARDS = ['singular', 'repeated', 'map-value', 'oneof']


def pack_refs(max_depth):
    """Reference-position matrix.  Cell (d, referee, card, kind) -> top-level message C<i>."""
    other = file('acme/wire/v1/aux_types.proto', P,
                 messages=[message('AuxMsg', [field('a', 1, 'string')], nested=[message('AuxInner', [field('i', 1, 'int32')])])],
                 enums=[enum('AuxEnum', 'AUX_ENUM_UNSPECIFIED', 'AUX_ONE')])
    op = 'acme.other.v1'
    dep = file('acme/other/v1/common.proto', op, messages=[message('Money', [field('units', 1, 'int64')])],
               enums=[enum('Region', 'REGION_UNSPECIFIED', 'EU')])
    msgs = [message('Early', [field('e', 1, 'string')], nested=[message('EarlyInner', [field('x', 1, 'string')])],
                    enums=[enum('EarlyNestedEnum', 'EARLY_NESTED_ENUM_UNSPECIFIED', 'EN_ONE')])]
    enums = [enum('EarlyEnum', 'EARLY_ENUM_UNSPECIFIED', 'EARLY_ONE')]
    cells = []
    i = 0
    for d, ref, card, kind in itertools.product(range(0, max_depth + 1), REFEREES, CARDS, ('message', 'enum')):
        if kind == 'enum' and ref in ('itself', 'parent'):
            continue
        if ref == 'parent' and d == 0:
            continue
        i += 1
        top = f'C{i}'
        path = [top] + [f'N{k}' for k in range(1, d + 1)]          # referrer = last element
        full = lambda k: Q('.'.join(path[:k + 1]))
        extra_nested_of_referrer, extra_nested_of_parent = [], []
        referrer_enums, parent_enums = [], []
        if ref == 'itself':
            target = full(d)
        elif ref == 'parent':
            target = full(d - 1)
        elif ref == 'child':
            if kind == 'message':
                extra_nested_of_referrer.append(message('Kid', [field('k', 1, 'string')]))
                target = full(d) + '.Kid'
            else:
                referrer_enums.append(enum('KidEnum', 'KID_ENUM_UNSPECIFIED', 'KID_ONE'))
                target = full(d) + '.KidEnum'
        elif ref == 'sibling':
            if d == 0:
                # sibling of a top-level message = another top-level message declared next to it
                if kind == 'message':
                    msgs.append(message(f'{top}Sib', [field('s', 1, 'string')]))
                    target = Q(f'{top}Sib')
                else:
                    enums.append(enum(f'{top}SibEnum', f'C{i}_SIB_ENUM_UNSPECIFIED', f'C{i}_SIB_ONE'))
                    target = Q(f'{top}SibEnum')
            elif kind == 'message':
                extra_nested_of_parent.append(message('Sib', [field('s', 1, 'string')]))
                target = full(d - 1) + '.Sib'
            else:
                parent_enums.append(enum('SibEnum', 'SIB_ENUM_UNSPECIFIED', 'SIB_ONE'))
                target = full(d - 1) + '.SibEnum'
        elif ref == 'other-nested':
            target = Q('Early.EarlyInner') if kind == 'message' else Q('Early.EarlyNestedEnum')
        elif ref == 'earlier':
            target = Q('Early') if kind == 'message' else Q('EarlyEnum')
        elif ref == 'later':
            target = Q('Late') if kind == 'message' else Q('LateEnum')
        elif ref == 'other-file':
            target = (Q('AuxMsg.AuxInner') if i % 2 else Q('AuxMsg')) if kind == 'message' else Q('AuxEnum')
        elif ref == 'dep-installed':
            target = '.google.type.Date' if kind == 'message' else '.google.type.DayOfWeek'
        else:
            target = f'.{op}.Money' if kind == 'message' else f'.{op}.Region'
        ftype = ('enum:' if kind == 'enum' else '') + target
        # the referrer message
        rfields, rnested, roneofs = [field('tag', 1, 'string')], list(extra_nested_of_referrer), []
        if card == 'singular':
            rfields.append(field('f', 2, ftype))
        elif card == 'repeated':
            rfields.append(field('f', 2, ftype, repeated=True))
        elif card == 'map-value':
            mf, me = map_field(full(d), 'f', 2, 'string', ftype)
            rfields.append(mf)
            rnested.append(me)
        else:
            rfields += [field('alt', 2, 'string', oneof=0), field('f', 3, ftype, oneof=0)]
            roneofs = ['choice']
        node = message(path[-1], rfields, nested=rnested, enums=referrer_enums, oneofs=roneofs)
        for k in range(d - 1, -1, -1):
            nested = [node] + (extra_nested_of_parent if k == d - 1 else [])
            node = message(path[k], [field('down', 1, full(k + 1)), field('lvl', 2, 'int32')], nested=nested,
                           enums=parent_enums if k == d - 1 else [])
        msgs.append(node)
        cells.append(dict(id=f'd{d}/{ref}/{card}/{kind}', top=top, referrer='.'.join(path)))
    msgs.append(message('Late', [field('l', 1, 'string')]))
    enums.append(enum('LateEnum', 'LATE_ENUM_UNSPECIFIED', 'LATE_ONE'))
    main = file('acme/wire/v1/refs.proto', P, messages=msgs, enums=enums)
    mods = ['google.type.date_pb2', 'google.type.dayofweek_pb2']
    std = desc.std_dep_names(mods)
    other.dependency.extend(std)
    dep.dependency.extend(std)
    main.dependency.extend(std + [other.name, dep.name])
    return [other, main], [dep], mods, cells


def pack_same_basename():
    """Target files named like files of other packages they take types from."""
    op = 'acme.other.v1'
    dep = file('acme/other/v1/common.proto', op, messages=[message('Money', [field('units', 1, 'int64')])],
               enums=[enum('Region', 'REGION_UNSPECIFIED', 'EU')])
    f1 = file('acme/wire/v1/date.proto', P, messages=[message('Booking', [field('day', 1, '.google.type.Date'),
                                                                         field('days', 2, '.google.type.Date', repeated=True)])])
    f2 = file('acme/wire/v1/common.proto', P, messages=[message('Invoice', [field('total', 1, f'.{op}.Money'),
                                                                           field('region', 2, 'enum:' + f'.{op}.Region')])])
    f3 = file('acme/wire/v1/status.proto', P, messages=[message('Outcome', [field('status', 1, '.google.rpc.Status'),
                                                                           field('booking', 2, Q('Booking')), field('invoice', 3, Q('Invoice'))])])
    mods = ['google.type.date_pb2', 'google.rpc.status_pb2']
    std = desc.std_dep_names(mods)
    dep.dependency.extend(std)
    f1.dependency.extend(std)
    f2.dependency.extend(std + [dep.name])
    f3.dependency.extend(std + [f1.name, f2.name])
    return [f1, f2, f3], [dep], mods


def pack_nested_module_names():
    """Only *nested* messages use field names equal to the `proto` module / a sibling module; nothing at module level does."""
    common = file('acme/wire/v1/common.proto', P, messages=[message('Shared', [field('s', 1, 'string')])],
                  enums=[enum('SharedTone', 'SHARED_TONE_UNSPECIFIED', 'LOUD')])
    msgs = [message('Outer3', [field('inner', 1, Q('Outer3.Inner')), field('inner2', 2, Q('Outer3.Inner2')), field('tag', 3, 'string')],
                    nested=[message('Inner', [field('proto', 1, 'string'), field('after', 2, 'string'), field('n', 3, 'int32'),
                                              field('deeper', 4, Q('Outer3.Inner.Deeper'))],
                                    nested=[message('Deeper', [field('proto', 1, 'bool'), field('more', 2, 'string', repeated=True)])]),
                            message('Inner2', [field('common', 1, 'string'), field('shared', 2, Q('Shared')),
                                               field('tones', 3, 'enum:' + Q('SharedTone'), repeated=True)])])]
    f = file('acme/wire/v1/nestednames.proto', P, messages=msgs)
    std = desc.std_dep_names()
    common.dependency.extend(std)
    f.dependency.extend(std + [common.name])
    return [common, f], []


def pack_alias_nested_type():
    """A type nested in a message of another file, referenced through a module that has to be imported under an alias (a field
    is named like the module) while that file also has a top-level type with the nested type's short name."""
    common = file('acme/wire/v1/common.proto', P, messages=[
        message('Money', [field('units', 1, 'int64'), field('state', 2, Q('Money.Status'))],
                nested=[message('Status', [field('settled', 1, 'bool'), field('note', 2, 'string')])],
                enums=[enum('Unit', 'UNIT_UNSPECIFIED', 'CENT')]),
        message('Status', [field('code', 1, 'int32')])], enums=[enum('Unit', 'UNIT_UNSPECIFIED', 'KILO', 'MEGA')])
    hist, hist_e = map_field(Q('Order'), 'history', 4, 'string', Q('Money.Status'))
    f = file('acme/wire/v1/orders.proto', P, messages=[
        message('Order', [field('common', 1, 'string'), field('payment', 2, Q('Money.Status')), field('status', 3, Q('Status')), hist,
                          field('unit', 5, 'enum:' + Q('Money.Unit')), field('scale', 6, 'enum:' + Q('Unit')),
                          field('payments', 7, Q('Money.Status'), repeated=True)], nested=[hist_e])])
    std = desc.std_dep_names()
    common.dependency.extend(std)
    f.dependency.extend(std + [common.name])
    return [common, f], []


def pack_shadowed_top_level():
    """A module-level message declared *before* another module-level message that nests a type of the same simple name and
    still refers to the module-level one (field and map value); same with enums."""
    errs, errs_e = map_field(Q('Job'), 'task_errors', 3, 'string', Q('Fault'))
    msgs = [message('Fault', [field('code', 1, 'int32'), field('text', 2, 'string')]),
            message('Job', [field('last_error', 1, Q('Fault')), field('own', 2, Q('Job.Fault')), errs,
                            field('level', 4, 'enum:' + Q('Level')), field('own_level', 5, 'enum:' + Q('Job.Level')),
                            field('errors', 6, Q('Fault'), repeated=True)],
                    nested=[errs_e, message('Fault', [field('nested_only', 1, 'bool')])],
                    enums=[enum('Level', 'LEVEL_UNSPECIFIED', 'INNER_HIGH')]),
            # and the other way round: declared after its user
            message('Task', [field('result', 1, Q('Result')), field('own', 2, Q('Task.Result'))],
                    nested=[message('Result', [field('nested_only', 1, 'bool')])]),
            message('Result', [field('value', 1, 'string')])]
    f = file('acme/wire/v1/shadow.proto', P, messages=msgs, enums=[enum('Level', 'LEVEL_UNSPECIFIED', 'OUTER_LOW', 'OUTER_HIGH')])
    return [f], []


def pack_subpackages_only():
    """Every target file lives in a proto sub-package of the API (the googleads layout); classes keep their own full names."""
    e = file('acme/wire/v1/enums/kinds.proto', P + '.enums', enums=[enum('Kind', 'KIND_UNSPECIFIED', 'BIG', 'SMALL')])
    r = file('acme/wire/v1/resources/item.proto', P + '.resources', messages=[
        message('Item', [field('name', 1, 'string'), field('kind', 2, 'enum:' + f'.{P}.enums.Kind'), field('parts', 3, f'.{P}.resources.Item.Part', repeated=True)],
                nested=[message('Part', [field('n', 1, 'int32')])])])
    o = file('acme/wire/v1/ops/op.proto', P + '.ops', messages=[
        message('Op', [field('item', 1, f'.{P}.resources.Item'), field('part', 2, f'.{P}.resources.Item.Part'), field('kind', 3, 'enum:' + f'.{P}.enums.Kind')])])
    std = desc.std_dep_names()
    e.dependency.extend(std)
    r.dependency.extend(std + [e.name])
    o.dependency.extend(std + [e.name, r.name])
    return [e, r, o], []


def pack_map_value_only():
    """Modules that a file needs *only* for the value type of a map field: another file of the API, a dependency outside the
    API, an installed module; messages and enums.  One referrer file per module so that no ordinary field asks for the import."""
    op = 'acme.other.v1'
    aux = file('acme/wire/v1/pins.proto', P, messages=[message('Pin', [field('at', 1, 'string')])],
               enums=[enum('PinKind', 'PIN_KIND_UNSPECIFIED', 'ROUND')])
    aux2 = file('acme/wire/v1/flags.proto', P, enums=[enum('Flag', 'FLAG_UNSPECIFIED', 'RAISED')])
    dep = file('acme/other/v1/money.proto', op, messages=[message('Money', [field('units', 1, 'int64')])])
    dep2 = file('acme/other/v1/regions.proto', op, enums=[enum('Region', 'REGION_UNSPECIFIED', 'EU')])
    mods = ['google.type.date_pb2', 'google.type.dayofweek_pb2']
    std = desc.std_dep_names(mods)
    files = [aux, aux2]
    for i, (vt, needs) in enumerate([(Q('Pin'), aux.name), ('enum:' + Q('Flag'), aux2.name), (f'.{op}.Money', dep.name),
                                     ('enum:' + f'.{op}.Region', dep2.name), ('.google.type.Date', None),
                                     ('enum:.google.type.DayOfWeek', None)]):
        mf, me = map_field(Q(f'Holder{i}'), 'by_key', 2, 'string', vt)
        mf2, me2 = map_field(Q(f'Holder{i}.Inner'), 'inner_by_id', 1, 'int64', vt)
        f = file(f'acme/wire/v1/holder{i}.proto', P, messages=[
            message(f'Holder{i}', [field('tag', 1, 'string'), mf], nested=[me, message('Inner', [mf2], nested=[me2])])])
        f.dependency.extend(std + ([needs] if needs else []))
        files.append(f)
    for f in (aux, aux2, dep, dep2):
        f.dependency.extend(std)
    return files, [dep, dep2], mods


def negative_enum_pack():
    f = file('acme/wire/v1/neg.proto', P, enums=[enum('Signed', ('SIGNED_UNSPECIFIED', 0), ('MINUS', -1), ('PLUS', 1))],
             messages=[message('UsesSigned', [field('s', 1, 'enum:' + Q('Signed'))])])
    return [f], []


def make_jobs(ctx, only=None):
    jobs = []

    def add(name, files, deps, mods=(), extra=None):
        if only and only.get('pack') != name:
            return
        for f in files + deps:
            if not f.dependency:
                f.dependency.extend(desc.std_dep_names(mods))
        req = request(files, 'transport=grpc,autogen-snippets=false', extra_dep_modules=mods, extra_dep_files=deps)
        desc.gate(req)
        jobs.append(dict(id=name, req=req.SerializeToString(), probe='mc.probes.wire',
                         pb2_files=[d.SerializeToString() for d in deps],
                         probe_args=dict(package=names.import_package(P), proto_package=P, seed=ctx.seed,
                                         cell_of={c['top']: c['id'] for c in (extra or [])},
                                         only_messages=(only or {}).get('messages'), thorough=ctx.thorough),
                         probe_timeout=3000, _extra=extra))
    add('kinds', *pack_kinds())
    add('names', *pack_names())
    add('recursion', *pack_recursion())
    add('same-basename', *pack_same_basename())
    add('nested-module-names', *pack_nested_module_names())
    add('alias-nested-type', *pack_alias_nested_type())
    add('subpackages-only', *pack_subpackages_only())
    add('shadowed-top-level', *pack_shadowed_top_level())
    add('negative-enum', *negative_enum_pack())
    add('map-value-only-imports', *pack_map_value_only())
    add('keyword-enum-values', *keyword_enum_values_pack())
    files, deps, mods, cells = pack_refs(4)
    add('refs', files, deps, mods, extra=cells)
    return jobs


def run(ctx, only=None):
    jobs = make_jobs(ctx, only)
    total = 0
    for job, res in zip(jobs, engine.run_jobs(jobs)):
        st = dict(pack=job['id'])
        if not res['gen']['ok']:
            ctx.state(1)
            ctx.violation(f'{job["id"]}|generation:{res["gen"]["etype"]}:{res["gen"]["where"]}',
                          f'pack {job["id"]}: generator failed: {res["gen"]["emsg"][:300]}', st)
            continue
        if 'probe_error' in res:
            raise HarnessError(f'C02 probe {job["id"]}: ' + res['probe_error'][-2500:])
        obs = res['obs']
        if obs.get('import_error'):
            e = obs['import_error']
            ctx.state(1)
            ctx.violation(f'{job["id"]}|import:{e["etype"]}:{e["where"]}', f'pack {job["id"]} does not import: {e["emsg"][:300]}', st)
            continue
        ctx.state(obs['messages'] + obs['enums'], transitions=obs['valuations'])
        ctx.validated_n(obs['messages'] + obs['enums'])
        ctx.evaluated(obs['roundtrips'])
        total += obs['roundtrips']
        ctx.log(f'{job["id"]}: {obs["messages"]} messages, {obs["enums"]} enums, {obs["valuations"]} valuations, {obs["roundtrips"]} round trips')
        for k in obs['nontrivial']:
            ctx.nontrivial_case(f'{job["id"]}|{k}')
        ctx.extra.setdefault('nontrivial_total', 0)
        ctx.extra['nontrivial_total'] += obs.get('nontrivial_total', len(obs['nontrivial']))
        for k, v in obs['outcomes'].items():
            ctx.outcome(k, v)
        for s in obs['samples']:
            ctx.sample(dict(pack=job['id'], **s))
        for f in obs['failures']:
            ctx.violation(f'{job["id"]}|{f["kind"]}|{f["cls"]}', f'{job["id"]}: {f["message"]}: {f["kind"]}: {f["detail"]}',
                          dict(pack=job['id'], messages=[f['message']]))
    if not only and total < 8000 and not ctx.violations:
        raise HarnessError(f'C02 exploration collapsed: {total} round trips')
    ctx.extra['bound'] = f'reference matrix nesting depth <= 4; palette variants <= 3 (+ explicit defaults)'


def replay(ctx, state):
    run(ctx, only=state)
