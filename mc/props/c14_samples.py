"""C14 -- generated samples are valid, executable and consistent with their metadata.

RPC cells = calling form (7) x required-field kit (complete product), packed into one
library, x transport {grpc, rest, grpc+rest}.  Every emitted sample is compiled and its
sample function executed unmodified against seams that accept the call; the request the
sample built is judged against the input descriptors; the snippet metadata and the
docstring snippet are compared with the file and with the imported client.
"""
import itertools

from .. import desc, engine
from ..desc import (field, message, enum, method, service, file, request, map_field, EMPTY, OPERATION, SCALAR_NAMES)
from ..ref import names
from ..report import HarnessError

RULE = ('cells = calling form {unary, paged, LRO, server/client/bidi streaming, void} x required-field kit (none, 15 scalar kinds, '
        'enum, nested depth 3, repeated, map, resource reference, oneof with scalar/message/enum first member, required+oneof, '
        'optional+required, dependency-package request) x transport; per cell the sync and async sample files; non-trivial = '
        'distinct sample functions executed that put >=1 request on the wire')

P = 'acme.smp.v1'
Q = lambda n: f'.{P}.{n}'
DOM = 'acme.googleapis.com'
FORMS = ['unary', 'paged', 'lro', 'server-stream', 'client-stream', 'bidi', 'void']


def kits():
    """name -> list of extra request fields / (fields, nested, oneofs) builder"""
    out = {}
    out['none'] = dict(fields=[field('note', 10, 'string')])
    for t in SCALAR_NAMES:
        out[f'scalar-{t}'] = dict(fields=[field('val', 10, t, required=True), field('note', 11, 'string')])
    out['enum'] = dict(fields=[field('tone', 10, 'enum:' + Q('Tone'), required=True)])
    out['nested3'] = dict(fields=[field('l1', 10, Q('Lvl1'), required=True)])
    out['repeated-scalar'] = dict(fields=[field('tags', 10, 'string', repeated=True, required=True)])
    out['repeated-message'] = dict(fields=[field('leaves', 10, Q('Lvl3'), repeated=True, required=True)])
    out['repeated-bool'] = dict(fields=[field('flags', 10, 'bool', repeated=True, required=True), field('toggles', 11, Q('Toggles'), required=True)])
    out['repeated-numbers'] = dict(fields=[field('counts', 10, 'int64', repeated=True, required=True), field('ratios', 11, 'double', repeated=True, required=True)])
    out['repeated-enum'] = dict(fields=[field('tones', 10, 'enum:' + Q('Tone'), repeated=True, required=True)])
    out['nested-repeated-enum'] = dict(fields=[field('mix', 10, Q('Mix'), required=True)])
    out['required-message-plain'] = dict(fields=[field('item', 10, Q('Item'), required=True)])
    out['two-required-same-type'] = dict(fields=[field('source', 10, Q('Lvl3'), required=True), field('destination', 11, Q('Lvl3'), required=True)])
    out['nested-two-same-type'] = dict(fields=[field('options', 10, Q('Pair'), required=True), field('again', 11, Q('Lvl3'), required=True)])
    # flattened signatures: the metadata's parameter list names the client method's parameters
    out['sig-plain'] = dict(fields=[field('note', 10, 'string'), field('count', 11, 'int32')], sigs=['note,count'])
    out['sig-dotted'] = dict(fields=[field('widget', 10, Q('Item')), field('etag', 11, 'string'), field('l1', 12, Q('Lvl1'))],
                             sigs=['widget.name,etag', 'l1.l2.skip'])
    out['resource-ref'] = dict(fields=[field('thing', 10, 'string', required=True, ref=f'{DOM}/Thing')])
    out['oneof-scalar-first'] = dict(fields=[field('by_name', 10, 'string', oneof=0), field('by_leaf', 11, Q('Lvl3'), oneof=0),
                                             field('by_tone', 12, 'enum:' + Q('Tone'), oneof=0)], oneofs=['selector'])
    out['oneof-message-first'] = dict(fields=[field('by_leaf', 10, Q('Lvl3'), oneof=0), field('by_name', 11, 'string', oneof=0)],
                                      oneofs=['selector'])
    out['oneof-enum-first'] = dict(fields=[field('by_tone', 10, 'enum:' + Q('Tone'), oneof=0), field('by_name', 11, 'string', oneof=0)],
                                   oneofs=['selector'])
    out['required+oneof'] = dict(fields=[field('name', 10, 'string', required=True), field('by_id', 11, 'int64', oneof=0),
                                         field('by_name', 12, 'string', oneof=0)], oneofs=['selector'])
    out['two-oneofs'] = dict(fields=[field('a1', 10, 'string', oneof=0), field('a2', 11, 'int32', oneof=0),
                                     field('b1', 12, 'bool', oneof=1), field('b2', 13, 'string', oneof=1)], oneofs=['first', 'second'])
    out['optional-required'] = dict(fields=[field('maybe', 10, 'string', optional=True, required=True)])
    out['required-reserved-name'] = dict(fields=[field('class', 10, 'string', required=True), field('from', 11, 'int32', required=True)])
    out['several-required'] = dict(fields=[field('parent', 10, 'string', required=True), field('l3', 11, Q('Lvl3'), required=True),
                                           field('count', 12, 'int32', required=True), field('opt', 13, 'string')])
    return out


def build(transport):
    msgs = [message('Lvl3', [field('leaf', 1, 'string', required=True), field('other', 2, 'int32')]),
            message('Lvl2', [field('l3', 1, Q('Lvl3'), required=True), field('skip', 2, 'string')]),
            message('Lvl1', [field('l2', 1, Q('Lvl2'), required=True)]),
            message('Thing', [field('name', 1, 'string')], resource=(f'{DOM}/Thing', 'things/{thing}')),
            message('Mix', [field('tones', 1, 'enum:' + Q('Tone'), repeated=True, required=True), field('tone', 2, 'enum:' + Q('Tone'), required=True),
                            field('nums', 3, 'int32', repeated=True, required=True)]),
            message('Toggles', [field('switches', 1, 'bool', repeated=True, required=True), field('on', 2, 'bool', required=True)]),
            message('Pair', [field('target', 1, Q('Lvl3'), required=True), field('fallback', 2, Q('Lvl3'), required=True)]),
            message('Resp', [field('ok', 1, 'bool'), field('text', 2, 'string')]),
            message('Item', [field('name', 1, 'string')]),
            message('PagedResp', [field('items', 1, Q('Item'), repeated=True), field('next_page_token', 2, 'string')]),
            message('LroResult', [field('out', 1, 'string')]), message('LroMeta', [field('pct', 1, 'int32')])]
    meths, cells = [], []
    i = 0
    dep = file('acme/other/v1/common.proto', 'acme.other.v1',
               messages=[message('PriceRequest', [field('name', 1, 'string', required=True), field('units', 2, 'int64')])])
    for kname, k in list(kits().items()) + [('dep-package', None)]:
        i += 1
        if k is None:
            rq_type = '.acme.other.v1.PriceRequest'
        else:
            rq = f'Rq{i}'
            fs = [field('page_size', 1, 'int32'), field('page_token', 2, 'string')] + list(k['fields'])
            msgs.append(message(rq, fs, oneofs=k.get('oneofs', ())))
            rq_type = Q(rq)
        for form in FORMS:
            rpc = f'Do{i}' + ''.join(w.capitalize() for w in form.split('-'))
            kw = dict()
            if form == 'paged':
                if k is None:
                    continue
                out_t = Q('PagedResp')
            elif form == 'lro':
                out_t = OPERATION
                kw['lro'] = ('LroResult', 'LroMeta')
            elif form == 'void':
                out_t = EMPTY
            else:
                out_t = Q('Resp')
            kw['cs'] = form in ('client-stream', 'bidi')
            kw['ss'] = form in ('server-stream', 'bidi')
            if not kw['cs']:
                kw['http'] = ('post', f'/v1/do/{i}/{form}', '*')
            if k is not None and k.get('sigs') and form in ('unary', 'server-stream', 'lro', 'void'):
                kw['sigs'] = k['sigs']
            meths.append(method(rpc, rq_type, out_t, **kw))
            cells.append(dict(id=f'{form}/{kname}', rpc=rpc, form=form, kit=kname, req=rq_type, resp=out_t))
    # a second service on another host: its region tags carry *its* host short name
    other = []
    for form in ('unary', 'void', 'server-stream'):
        rpc = 'Other' + ''.join(w.capitalize() for w in form.split('-'))
        other.append(method(rpc, Q('Rq1'), EMPTY if form == 'void' else Q('Resp'), ss=form == 'server-stream',
                            http=('post', f'/v1/other/{form}', '*')))
        cells.append(dict(id=f'{form}/second-service', rpc=rpc, form=form, kit='none', req=Q('Rq1'),
                          resp=EMPTY if form == 'void' else Q('Resp'), service='Other', shortname='otherhost'))
    # RPCs named by Python builtins / words of the generator's reserved list that are not keywords: the client method, the sample's
    # call and the snippet metadata name the same method
    for rpc in ('List', 'Open', 'Next', 'Hash', 'Type', 'Import', 'Global'):
        other.append(method(rpc, Q('Rq1'), Q('Resp'), http=('post', f'/v1/other/named/{rpc.lower()}', '*')))
        cells.append(dict(id=f'unary/rpc-named-{rpc.lower()}', rpc=rpc, py=names.py_method(rpc), form='unary', kit='none', req=Q('Rq1'), resp=Q('Resp'),
                          service='Other', shortname='otherhost'))
    main = file('acme/smp/v1/samples.proto', P, messages=msgs, enums=[enum('Tone', 'TONE_UNSPECIFIED', 'LOUD', 'QUIET')],
                services=[service('Smp', meths, host='smpapi.googleapis.com:443'),
                          service('Other', other, host='otherhost.example.com')])
    std = desc.std_dep_names()
    dep.dependency.extend(std)
    main.dependency.extend(std + [dep.name])
    req = request([main], f'transport={transport}', extra_dep_files=[dep])
    desc.gate(req)
    return req, cells, dep


def make_job(transport, only=None):
    req, cells, dep = build(transport)
    if only:
        cells = [c for c in cells if c['id'] in only]
    return dict(id=f'samples/{transport}', req=req.SerializeToString(), probe='mc.probes.samples', pb2_files=[dep.SerializeToString()],
                probe_args=dict(package=names.import_package(P), proto_package=P, cells=cells, transport=transport,
                                shortname='smpapi', version='v1', service='Smp'),
                probe_timeout=3000, _transport=transport, _cells=cells)


def unversioned_job(only=None):
    """The same API under a proto package without a version segment: the version slot of the region tags is empty."""
    from google.protobuf import text_format
    from google.protobuf.compiler import plugin_pb2
    req, cells, dep = build('grpc')
    txt = text_format.MessageToString(req).replace('acme.smp.v1', 'acme.smp').replace('acme/smp/v1/', 'acme/smp/')
    req2 = plugin_pb2.CodeGeneratorRequest()
    text_format.Parse(txt, req2)
    desc.gate(req2)
    cells = [dict(c, id='unversioned/' + c['id'], req=c['req'].replace('.acme.smp.v1.', '.acme.smp.'), resp=c['resp'].replace('.acme.smp.v1.', '.acme.smp.'))
             for c in cells if c['kit'] in ('none', 'enum', 'dep-package')]
    if only:
        cells = [c for c in cells if c['id'] in only]
    return dict(id='samples/grpc/unversioned', req=req2.SerializeToString(), probe='mc.probes.samples', pb2_files=[dep.SerializeToString()],
                probe_args=dict(package='acme.smp', proto_package='acme.smp', cells=cells, transport='grpc', shortname='smpapi', version='',
                                service='Smp'),
                probe_timeout=3000, _transport='grpc', _cells=cells)


def no_namespace_job(only=None):
    """The same API under a proto package without a namespace segment (smp.v1): samples import the package directly."""
    from google.protobuf import text_format
    from google.protobuf.compiler import plugin_pb2
    req, cells, dep = build('grpc')
    txt = text_format.MessageToString(req).replace('acme.smp.v1', 'smp.v1').replace('acme/smp/v1/', 'smp/v1/')
    req2 = plugin_pb2.CodeGeneratorRequest()
    text_format.Parse(txt, req2)
    desc.gate(req2)
    cells = [dict(c, id='no-namespace/' + c['id'], req=c['req'].replace('.acme.smp.v1.', '.smp.v1.'), resp=c['resp'].replace('.acme.smp.v1.', '.smp.v1.'))
             for c in cells if c['kit'] in ('none', 'enum', 'dep-package')]
    if only:
        cells = [c for c in cells if c['id'] in only]
    return dict(id='samples/grpc/no-namespace', req=req2.SerializeToString(), probe='mc.probes.samples', pb2_files=[dep.SerializeToString()],
                probe_args=dict(package='smp_v1', proto_package='smp.v1', cells=cells, transport='grpc', shortname='smpapi', version='v1',
                                service='Smp'),
                probe_timeout=3000, _transport='grpc', _cells=cells)


def run(ctx, only=None):
    jobs = [make_job(t, (only or {}).get('cells')) for t in ('grpc', 'rest', 'grpc+rest')
            if not only or only.get('transport') in (None, t)]
    if not only or any(str(c).startswith('unversioned/') for c in (only.get('cells') or [])):
        jobs.append(unversioned_job((only or {}).get('cells')))
    if not only or any(str(c).startswith('no-namespace/') for c in (only.get('cells') or [])):
        jobs.append(no_namespace_job((only or {}).get('cells')))
    jobs = [j for j in jobs if j['_cells']]
    ctx.log(f'{sum(len(j["_cells"]) for j in jobs)} RPC cells over {len(jobs)} transports')
    ran = 0
    for job, res in zip(jobs, engine.run_jobs(jobs)):
        tr = job['_transport']
        st = dict(transport=tr, cells=None)
        if not res['gen']['ok']:
            ctx.state(1)
            ctx.violation(f'generation:{res["gen"]["etype"]}:{res["gen"]["where"]}|{tr}', f'generator failed: {res["gen"]["emsg"][:300]}', st)
            continue
        if 'probe_error' in res:
            raise HarnessError(f'C14 probe {job["id"]}: ' + res['probe_error'][-2500:])
        obs = res['obs']
        if obs.get('import_error'):
            e = obs['import_error']
            ctx.state(1)
            ctx.violation(f'import:{e["etype"]}:{e["where"]}|{tr}', f'library does not import: {e["emsg"][:300]}', st)
            continue
        ctx.state(len(job['_cells']), transitions=obs['samples_run'])
        ctx.validated_n(len(job['_cells']))
        ctx.evaluated(obs['samples_run'])
        ran += obs['samples_run']
        for k in obs['nontrivial']:
            ctx.nontrivial_case(f'{tr}|{k}')
        for k, v in obs['outcomes'].items():
            ctx.outcome(k, v)
        for s in obs['samples']:
            ctx.sample(dict(transport=tr, **s), limit=3)
        for f in obs['failures']:
            ctx.violation(f'{f["cell"]}|{f["variant"]}|{f["kind"]}|{tr}', f'{f["cell"]} {f["variant"]} ({tr}): {f["kind"]}: {f["detail"]}',
                          dict(transport=tr, cells=[f['cell']]))
    if not only and ran < 500 and not ctx.violations:
        raise HarnessError(f'C14 exploration collapsed: {ran} sample functions executed')
    ctx.extra['bound'] = '7 calling forms x 33 kits x 3 transports, sync + async samples'
    ctx.assume('samples run unmodified with google.auth.default and create_channel patched; replies are default messages '
               '(a done Operation, one page, a 2-item stream)')


def replay(ctx, state):
    run(ctx, only=state)
