"""C17 -- mixin RPCs are exposed exactly as configured in the service YAML.

States = service YAMLs: for each mixin API every subset of its methods that has an http
rule, listed / not listed, all combinations of the three APIs, IAM override by the API's own
RPC, the legacy add-iam-methods option; x transport.  Presence of each of the ten mixin
methods on sync and asyncio clients, and one driven call per present method over gRPC and
REST, are compared with a canonical table written from the public API definitions.
"""
import itertools

from .. import desc, engine
from ..desc import field, message, method, service, file, request
from ..ref import names
from ..report import HarnessError

RULE = ('states = YAMLs {every rule subset per mixin API (32+8+4), listed-without-rules, rules-without-listing, 2^3 API '
        'combinations, IAM override, add-iam-methods with/without mixin, rule shapes} x transport{grpc, rest, grpc+rest}; oracle = '
        'canonical mixin table (present iff listed and rule present and not overridden; gRPC path, request/response types, '
        'routing header; REST verb/path/body per rule); non-trivial = distinct (state, method, client kind) presence checks '
        'plus driven calls')

P = 'acme.mix.v1'
Q = lambda n: f'.{P}.{n}'
OPS, IAM, LOC = 'google.longrunning.Operations', 'google.iam.v1.IAMPolicy', 'google.cloud.location.Locations'
# canonical table: method -> (api, grpc path, request type, response type (None = Empty), routing field)
CANON = {
    'ListOperations': (OPS, '/google.longrunning.Operations/ListOperations', 'google.longrunning.ListOperationsRequest', 'google.longrunning.ListOperationsResponse', 'name'),
    'GetOperation': (OPS, '/google.longrunning.Operations/GetOperation', 'google.longrunning.GetOperationRequest', 'google.longrunning.Operation', 'name'),
    'DeleteOperation': (OPS, '/google.longrunning.Operations/DeleteOperation', 'google.longrunning.DeleteOperationRequest', None, 'name'),
    'CancelOperation': (OPS, '/google.longrunning.Operations/CancelOperation', 'google.longrunning.CancelOperationRequest', None, 'name'),
    'WaitOperation': (OPS, '/google.longrunning.Operations/WaitOperation', 'google.longrunning.WaitOperationRequest', 'google.longrunning.Operation', 'name'),
    'SetIamPolicy': (IAM, '/google.iam.v1.IAMPolicy/SetIamPolicy', 'google.iam.v1.SetIamPolicyRequest', 'google.iam.v1.Policy', 'resource'),
    'GetIamPolicy': (IAM, '/google.iam.v1.IAMPolicy/GetIamPolicy', 'google.iam.v1.GetIamPolicyRequest', 'google.iam.v1.Policy', 'resource'),
    'TestIamPermissions': (IAM, '/google.iam.v1.IAMPolicy/TestIamPermissions', 'google.iam.v1.TestIamPermissionsRequest', 'google.iam.v1.TestIamPermissionsResponse', 'resource'),
    'GetLocation': (LOC, '/google.cloud.location.Locations/GetLocation', 'google.cloud.location.GetLocationRequest', 'google.cloud.location.Location', 'name'),
    'ListLocations': (LOC, '/google.cloud.location.Locations/ListLocations', 'google.cloud.location.ListLocationsRequest', 'google.cloud.location.ListLocationsResponse', 'name'),
}
BY_API = {a: [m for m, c in CANON.items() if c[0] == a] for a in (OPS, IAM, LOC)}
# default rule per method: (verb, path, body, additional bindings)
RULES = {
    'ListOperations': ('get', '/v1/{name=operations}', None, []),
    'GetOperation': ('get', '/v1/{name=operations/*}', None, [('get', '/v1/{name=projects/*/operations/*}', None)]),
    'DeleteOperation': ('delete', '/v1/{name=operations/*}', None, []),
    'CancelOperation': ('post', '/v1/{name=operations/*}:cancel', '*', []),
    'WaitOperation': ('post', '/v1/{name=operations/*}:wait', '*', []),
    'SetIamPolicy': ('post', '/v1/{resource=shelves/*}:setIamPolicy', '*', []),
    'GetIamPolicy': ('get', '/v1/{resource=shelves/*}:getIamPolicy', None, [('post', '/v1/{resource=rooms/*}:getIamPolicy', '*')]),
    'TestIamPermissions': ('post', '/v1/{resource=shelves/*}:testIamPermissions', '*', []),
    'GetLocation': ('get', '/v1/{name=projects/*/locations/*}', None, []),
    'ListLocations': ('get', '/v1/{name=projects/*}/locations', None, [('get', '/v1/{name=organizations/*}/locations', None)]),
}
VALUES = {'ListOperations': 'operations', 'GetOperation': 'operations/op1', 'DeleteOperation': 'operations/op1',
          'CancelOperation': 'operations/op1', 'WaitOperation': 'operations/op1', 'SetIamPolicy': 'shelves/s1',
          'GetIamPolicy': 'shelves/s1', 'TestIamPermissions': 'shelves/s1', 'GetLocation': 'projects/p1/locations/l1',
          'ListLocations': 'projects/p1'}


# superseded rules: service-configuration rules are "last one wins" (google/api/http.proto), so a selector that occurs twice
# is governed by its later rule
STALE = {
    'GetOperation': ('get', '/v1beta1/{name=operations/*}', None),
    'CancelOperation': ('post', '/v1beta1/{name=operations/*}:cancel', None),
    'GetIamPolicy': ('post', '/v1beta1/{resource=shelves/*}:getIamPolicy', '*'),
    'ListLocations': ('get', '/v1beta1/{name=projects/*}/locations', None),
}


def yaml_of(listed, ruled, stale=(), selective=None, svc='Lib', own_last=False):
    y = f'type: google.api.Service\nconfig_version: 3\nname: mix.example.com\ntitle: Mix\napis:\n' + ('' if own_last else f'- name: {P}.{svc}\n')
    for a in listed:
        y += f'- name: {a}\n'
    if own_last:
        y += f'- name: {P}.{svc}\n'
    if selective is not None:
        internal, methods = selective
        y += ('publishing:\n  library_settings:\n'
              f'  - version: {P}\n    python_settings:\n      common:\n        selective_gapic_generation:\n'
              f'          generate_omitted_as_internal: {"true" if internal else "false"}\n          methods:\n'
              + ''.join(f'          - {P}.{m}\n' for m in methods))
    if ruled:
        y += 'http:\n  rules:\n'
        for m in stale:
            verb, path, body = STALE[m]
            y += f"  - selector: {CANON[m][0]}.{m}\n    {verb}: '{path}'\n" + (f"    body: '{body}'\n" if body else '')
        for m in ruled:
            api = CANON[m][0]
            verb, path, body, extra = RULES[m]
            y += f"  - selector: {api}.{m}\n    {verb}: '{path}'\n"
            if body:
                y += f"    body: '{body}'\n"
            if extra:
                y += '    additional_bindings:\n'
                for v, pth, b in extra:
                    y += f"    - {v}: '{pth}'\n" + (f"      body: '{b}'\n" if b else '')
    return y


def states():
    out = []
    for api, ms in BY_API.items():
        for n in range(0, len(ms) + 1):
            for sub in itertools.combinations(ms, n):
                out.append(dict(id=f'{api.split(".")[-1]}:{"+".join(sub) or "no-rules"}', listed=[api], ruled=list(sub), own_iam=False, legacy=False))
        out.append(dict(id=f'{api.split(".")[-1]}:rules-but-not-listed', listed=[], ruled=list(ms), own_iam=False, legacy=False))
    for combo in itertools.product((False, True), repeat=3):
        listed = [a for a, on in zip((OPS, IAM, LOC), combo) if on]
        out.append(dict(id='combo:' + ('+'.join(a.split('.')[-1] for a in listed) or 'none'), listed=listed, ruled=list(CANON),
                        own_iam=False, legacy=False))
    out.append(dict(id='iam-override', listed=[OPS, IAM, LOC], ruled=list(CANON), own_iam=True, legacy=False))
    # the API defines SetIamPolicy itself, the YAML configures only the *other* IAM RPCs: nothing is overridden
    out.append(dict(id='iam-own-rpc-not-configured', listed=[IAM], ruled=['GetIamPolicy', 'TestIamPermissions'], own_iam=True, legacy=False))
    out.append(dict(id='iam-own-rpc-only-one-configured', listed=[IAM, OPS], ruled=['SetIamPolicy', 'GetOperation'], own_iam=True, legacy=False))
    out.append(dict(id='iam-override-by-second-service', listed=[OPS, IAM, LOC], ruled=list(CANON), own_iam=True, own_svc='Vault', legacy=False))
    out.append(dict(id='iam-override-by-first-service', listed=[OPS, IAM, LOC], ruled=list(CANON), own_iam=True, own_svc='Vault', own_first=True,
                    legacy=False))
    out.append(dict(id='legacy-add-iam-methods', listed=[], ruled=[], own_iam=False, legacy=True))
    out.append(dict(id='legacy-add-iam-methods+iam-mixin', listed=[IAM], ruled=BY_API[IAM], own_iam=False, legacy=True))
    out.append(dict(id='duplicate-selectors', listed=[OPS, IAM, LOC], ruled=list(CANON), stale=list(STALE), own_iam=False, legacy=False))
    # mixins next to selective generation: the mixin RPCs are not subject to the method allow-list
    for internal in (False, True):
        out.append(dict(id=f'selective/{"internal" if internal else "pruned"}', listed=[OPS, IAM, LOC], ruled=list(CANON),
                        selective=(internal, ['Lib.GetBook']), own_iam=False, legacy=False))
    out.append(dict(id='subpackages-only', listed=[OPS, IAM, LOC], ruled=list(CANON), own_iam=False, legacy=False, layout='subpackages'))
    # wave 7: the API's own service carries the short name of a mixin interface, and is listed before / after the mixins
    for sv in ('Locations', 'Operations', 'IAMPolicy'):
        for last in (False, True):
            out.append(dict(id=f'own-service-named-{sv}/{"listed-last" if last else "listed-first"}', listed=[OPS, IAM, LOC], ruled=list(CANON),
                            own_iam=False, legacy=False, svc_name=sv, own_last=last))
    out.append(dict(id='own-service-listed-last', listed=[OPS, IAM, LOC], ruled=list(CANON), own_iam=False, legacy=False, own_last=True))
    out.append(dict(id='no-yaml', listed=None, ruled=[], own_iam=False, legacy=False))
    return out


def expected_present(st):
    if st['listed'] is None:
        return set()
    pres = {m for m in st['ruled'] if CANON[m][0] in st['listed']}
    if st['own_iam']:
        pres.discard('SetIamPolicy')      # yields to the API's own RPC of that name
    return pres


def unjudged(st):
    """When the API's own SetIamPolicy overrides a *configured* SetIamPolicy mixin, the statement does not say whether the
    other configured IAM mixins stay: observed, not judged."""
    if st['own_iam'] and 'SetIamPolicy' in st['ruled'] and st['listed'] and IAM in st['listed']:
        return {'GetIamPolicy', 'TestIamPermissions'}
    return set()


def build(st, transport):
    msgs = [message('Book', [field('name', 1, 'string')]), message('GetBookRequest', [field('name', 1, 'string')])]
    meths = [method('GetBook', Q('GetBookRequest'), Q('Book'), http=('get', '/v1/{name=books/*}'))]
    if st.get('selective'):
        meths.append(method('GetOtherBook', Q('GetBookRequest'), Q('Book'), http=('get', '/v1/{name=otherBooks/*}')))
    mods = ['google.iam.v1.iam_policy_pb2']
    own = method('SetIamPolicy', '.google.iam.v1.SetIamPolicyRequest', '.google.iam.v1.Policy',
                 http=('post', '/v1/{resource=books/*}:setIamPolicy', '*'))
    svcs = [service(st.get('svc_name', 'Lib'), meths)]
    if st['own_iam'] and st.get('own_svc', 'Lib') == 'Lib':
        meths.append(own)
        svcs = [service('Lib', meths)]
    elif st['own_iam']:
        # the RPC is declared by another service, after (or, own_first, before) one that declares nothing of the kind
        other = service(st['own_svc'], [method('GetVaultBook', Q('GetBookRequest'), Q('Book'), http=('get', '/v1/{name=vaults/*}')), own])
        svcs = [other] + svcs if st.get('own_first') else svcs + [other]
    f = file('acme/mix/v1/mix.proto', P, messages=msgs, services=svcs)
    files = [f]
    if st.get('layout') == 'subpackages':
        # every file of the API sits in a proto sub-package (resources / services); the service is rendered through a sub-package view
        from google.protobuf import text_format
        txt = text_format.MessageToString(f).replace(P, P + '.api').replace('acme/mix/v1/', 'acme/mix/v1/api/')
        f = type(f)()
        text_format.Parse(txt, f)
        res = file('acme/mix/v1/resources/res.proto', P + '.resources', messages=[message('Widget', [field('name', 1, 'string')])])
        res.dependency.extend(desc.std_dep_names(mods))
        files = [res, f]
    param = f'transport={transport},autogen-snippets=false'
    of = None
    if st['listed'] is not None:
        param += ',service-yaml=@svc.yaml@'
        of = {'svc.yaml': yaml_of(st['listed'], st['ruled'], st.get('stale', ()), st.get('selective'), svc=st.get('svc_name', 'Lib'),
                                  own_last=st.get('own_last', False))}
        if st.get('layout') == 'subpackages':
            of['svc.yaml'] = of['svc.yaml'].replace(f'- name: {P}.Lib', f'- name: {P}.api.Lib')
    if st['legacy']:
        param += ',add-iam-methods'
    req = request(files, param, extra_dep_modules=mods)
    desc.gate(req)
    return req, of


def make_job(st, transport):
    req, of = build(st, transport)
    return dict(id=f'{st["id"]}|{transport}', req=req.SerializeToString(), opt_files=of, probe='mc.probes.mixins',
                probe_args=dict(package=names.import_package(P) + ('.api' if st.get('layout') == 'subpackages' else ''), transport=transport, canon={k: list(v) for k, v in CANON.items()},
                                rules={k: [v[0], v[1], v[2], [list(x) for x in v[3]]] for k, v in RULES.items()}, values=VALUES,
                                legacy=st['legacy'], own_iam=st['own_iam'], ruled=st['ruled'], service=('BaseLib' if st.get('selective') and st['selective'][0] else st.get('own_svc', st.get('svc_name', 'Lib'))),
                                own_path=f'/{P}.{st.get("own_svc", "Lib")}/SetIamPolicy'),
                _st=st, _transport=transport)


def run(ctx, only=None):
    sts = states()
    jobs = []
    for st, tr in itertools.product(sts, ('grpc', 'rest', 'grpc+rest')):
        if only and (st['id'] != only['state'] or tr != only['transport']):
            continue
        jobs.append(make_job(st, tr))
    ctx.log(f'{len(jobs)} (yaml, transport) states')
    calls = 0
    for job, res in zip(jobs, engine.run_jobs(jobs, progress=60)):
        st, tr = job['_st'], job['_transport']
        sid = job['id']
        state = dict(state=st['id'], transport=tr)
        ctx.state(1, transitions=max(1, len(st['ruled'])))
        ctx.evaluated(1)

        def bad(kind, cls, detail):
            ctx.violation(f'{kind}|{cls}|{tr}|{"legacy" if st["legacy"] else "own-iam" if st["own_iam"] else "plain"}', f'{sid}: {kind}: {detail}', state)
        if not res['gen']['ok']:
            bad('generation', f'{res["gen"]["etype"]}:{res["gen"]["where"]}|{st["id"]}', res['gen']['emsg'][:300])
            continue
        if 'probe_error' in res:
            raise HarnessError(f'C17 probe {sid}: ' + res['probe_error'][-2000:])
        obs = res['obs']
        ctx.validated_n(1)
        if obs.get('import_error'):
            e = obs['import_error']
            bad('import', f'{e["etype"]}|{st["id"]}', e['emsg'][:300])
            continue
        exp = expected_present(st)
        legacy_iam = set(BY_API[IAM]) if st['legacy'] else set()
        for kind, present in obs['present'].items():
            got = set(present)
            want = exp | legacy_iam
            if st['own_iam']:
                want = want | {'SetIamPolicy'}        # the API's own RPC
            for m in CANON:
                ctx.nontrivial_case(f'{sid}|{m}|{kind}')
            amb = unjudged(st)
            if got - amb != want - amb:
                bad('presence', f'{kind}|missing={sorted(want - got)}|extra={sorted(got - want)}',
                    f'{kind} client offers {sorted(got)}, configuration implies {sorted(want)}')
        calls += obs['calls']
        ctx.evaluated(obs['calls'])
        for f in obs['failures']:
            bad(f['kind'], f'{f["method"]}|{f["path"]}', f'{f["method"]} via {f["path"]}: {f["detail"]}')
        ctx.outcome('judged')
        ctx.sample(dict(state=st['id'], transport=tr, present=obs['present']), limit=3)
    if not only and calls < 500 and not ctx.violations:
        raise HarnessError(f'C17 exploration collapsed: {calls} driven calls')
    ctx.extra['bound'] = 'every rule subset per mixin API; all API combinations; 3 transports'


def replay(ctx, state):
    run(ctx, only=state)
