"""C20: comment texts that are awkward exactly where a template embeds them (end of a string
literal, first line behind an offset, many lines), and the places a comment can sit in the
source info (Metadata.doc prefers leading, then trailing, then the detached comments)."""

LONG = 'L' * 45

HAZARDS = [
    ('end-quote', 'Ends with a double quote"'),
    ('end-quote-multiline', f'{LONG} {LONG} a comment long enough to wrap that ends with a "quote"'),
    ('end-two-quotes', 'Ends with two quotes""'),
    ('end-quote-paragraphs', 'First paragraph.\n\n Second paragraph ends with a "quote"'),
    ('start-quote', '"Starts with a quote and goes on'),
    ('inner-quotes', 'Has "quoted" and \'single\' words inside'),
    ('end-apostrophe', "Ends with an apostrophe'"),
    ('triple-single', "Has " + "'" * 3 + " triple single quotes inside"),
    ('many-lines', ' '.join(f'w{i}' for i in range(90))),
    ('long-word-first', 'L' * 90 + ' then short words'),
    ('first-line-boundary', 'x' * 33 + ' ' + 'y' * 31 + ' tail words follow here'),
    ('short-then-newline', 'ab\n q"'),
    ('colon-end', 'A sentence that ends with a colon:'),
    ('numbered', '1. first item\n 2. second item'),
    ('dash-items', 'Items:\n\n - one thing\n - another thing'),
    ('unicode', 'Zoë ünïcode → arrows and “curly quotes”'),
    ('percent-braces', '100% {brace} <tag> &amp; %s %(name)s {0}'),
    ('backslash-mid', 'A back\\slash in the mid\\dle of words'),
    ('valid-escapes', 'Write to C:\\temp\\nightly\\books and \\x41 or \\101 then \\u0041'),
    ('one-char', 'x'),
    ('trailing-blank-lines', 'Text with trailing blank lines\n\n'),
    ('leading-indent', '   indented start and  double  spaces'),
    ('end-quote-period', 'Ends with quote then period".'),
]

PLACES = ['leading', 'trailing', 'detached', 'detached2']
