"""C15 -- gapic_metadata.json and the fix-up script describe the generated surface exactly.

States = API variant (service count, RPC-name kinds, request-field layouts, internal
methods through selective generation) x transport; the emitted gapic_metadata.json and the
fix-up script's METHOD_TO_PARAMS are compared with a reference table built from the input
descriptors and with introspection of the imported package.
"""
import itertools
import json

from .. import desc, engine
from ..desc import field, message, method, service, file, request, EMPTY
from ..ref import names
from ..report import HarnessError

RULE = ('states = API variant (1/2/3 services, equal RPC names across services, keyword / acronym / digit RPC names, internal '
        'methods, request-field layouts) x transport{grpc, rest, grpc+rest}; oracle = reference service/RPC/client table from '
        'the input descriptors, getattr on the imported package, required-first field order; non-trivial = distinct '
        '(variant, transport, service, rpc) entries checked')

P = 'acme.meta.v1'
Q = lambda n: f'.{P}.{n}'
RPC_NAMES = ['Get', 'Import', 'ListHTTPRoutes', 'Do2FA', 'GetV2Thing', 'CreateOAuthToken', 'X', 'Yield', 'getLower',
             'UpdateABTest', 'Create3DModel', 'List', 'Tail', 'StreamUp', 'Chat']
ARITY = {'Tail': (False, True), 'StreamUp': (True, False), 'Chat': (True, True)}     # (client streaming, server streaming)
LAYOUTS = {
    'required-first': [('name', 'string', True), ('force', 'bool', False), ('note', 'string', False)],
    'required-last': [('note', 'string', False), ('force', 'bool', False), ('name', 'string', True)],
    'interleaved': [('a', 'string', False), ('name', 'string', True), ('b', 'int32', False), ('parent', 'string', True), ('c', 'bool', False)],
    'reserved': [('class', 'string', False), ('from', 'string', True), ('name', 'string', False), ('import', 'int32', True)],
    'none': [],
    'single': [('name', 'string', True)],
    'single-optional': [('filter', 'string', False)],
    # REQUIRED next to other behaviours (6th element: the behaviour list), declared after optional fields
    'several-behaviours': [('parent', 'string', True, 1, False), ('note', 'string', False, 2, False), ('book', 'string', 'RI', 3, False),
                           ('book_id', 'string', 'IR', 4, False), ('validate_only', 'bool', False, 5, False)],
    # proto3 optional and REQUIRED at once, declared after a non-required field (5th element: proto3 optional)
    'optional-required': [('name', 'string', True, 1, False), ('update_note', 'string', False, 2, False), ('etag', 'string', True, 3, True),
                          ('mask', 'string', False, 4, True)],
    'all-required': [('x', 'string', True), ('y', 'string', True)],
    # declaration order differs from field-number order
    'numbers-descending': [('scope', 'string', False, 9), ('name', 'string', True, 5), ('tail', 'string', True, 3), ('extra', 'int32', False, 1)],
    # request fields named like the call-level control parameters (wave 7): they are request fields all the same
    'control-parameter-names': [('item_id', 'string', False), ('metadata', 'string', False), ('name', 'string', True),
                                ('timeout', 'int32', False), ('retry', 'bool', True), ('request', 'string', False)],
    'number-inserted-later': [('parent', 'string', True, 1), ('from', 'string', False, 7), ('item_id', 'string', True, 2), ('filter', 'string', False, 3)],
}


def build(n_services, transport, internal=False, P=P, subsvc=False, snippets=False):
    Q = lambda n: f'.{P}.{n}'
    msgs = [message('Resp', [field('ok', 1, 'bool')])]
    lay = list(LAYOUTS)
    svcs, table = [], {}
    k = 0
    for si in range(n_services):
        sname = ['Alpha', 'Beta', 'Gamma'][si]
        meths = []
        rpcs = RPC_NAMES if si < 2 else RPC_NAMES[:3]
        for ri, rpc in enumerate(rpcs):
            k += 1
            layout = lay[(ri + si) % len(lay)]
            rq = f'{sname}{rpc[0].upper()}{rpc[1:]}Request'
            from google.api import field_behavior_pb2 as fb
            BEH = {'RI': [fb.REQUIRED, fb.INPUT_ONLY], 'IR': [fb.IMMUTABLE, fb.REQUIRED]}
            fs = [field(x[0], x[3] if len(x) > 3 else i + 1, x[1], required=(x[2] is True), behaviors=BEH.get(x[2], ()),
                        optional=(len(x) > 4 and x[4])) for i, x in enumerate(LAYOUTS[layout])]
            msgs.append(message(rq, fs))
            cs, ss = ARITY.get(rpc, (False, False))
            http = None if cs else ('post', f'/v1/{sname.lower()}/{ri}', '*')
            meths.append(method(rpc, Q(rq), Q('Resp') if ri % 4 else EMPTY, http=http, cs=cs, ss=ss, deprecated=(rpc == 'GetV2Thing')))
            table.setdefault(sname, {})[rpc] = dict(layout=layout, fields=[x[0] for x in LAYOUTS[layout]],
                                                    required=[x[0] for x in LAYOUTS[layout] if x[2]])
        if si == 0:
            # an RPC whose request is a plain-protobuf message of a dependency package with message-typed fields
            from google.iam.v1 import iam_policy_pb2
            from google.api import field_behavior_pb2
            d = iam_policy_pb2.SetIamPolicyRequest.DESCRIPTOR
            meths.append(method('SetIamPolicy', '.google.iam.v1.SetIamPolicyRequest', '.google.iam.v1.Policy',
                                http=('post', '/v1/{resource=alphas/*}:setIamPolicy', '*')))
            table[sname]['SetIamPolicy'] = dict(layout='dep-package-request', fields=[f_.name for f_ in d.fields],
                                                required=[f_.name for f_ in d.fields if field_behavior_pb2.REQUIRED in
                                                          f_.GetOptions().Extensions[field_behavior_pb2.field_behavior]])
        svcs.append(service(sname, meths))
    if n_services >= 2:
        # a service that declares no RPC at all: it still has its clients, and the metadata says so
        svcs.append(service('Nautili', []))
        table['Nautili'] = {}
    f = file(P.replace('.', '/') + '/meta.proto', P, messages=msgs, services=svcs)
    files = [f]
    fixup_only = {}
    if subsvc:
        # a service declared in a proto sub-package: its RPCs belong in the fix-up table like any other
        sp = P + '.deepsea'
        # (the file declares no message of its own: a message in a sub-package next to root-package files is D18)
        fs = file(P.replace('.', '/') + '/deepsea/deepsea.proto', sp,
                  services=[service('Anglerfish', [method('TrackLure', Q('TrackLureRequest'), Q('Resp'),
                                                          http=('post', '/v1/lures:track', '*'))])])
        msgs.append(message('TrackLureRequest', [field('depth', 1, 'int32'), field('name', 2, 'string', required=True)]))
        f.message_type.add().CopyFrom(msgs[-1])
        fs.dependency.extend(desc.std_dep_names(['google.iam.v1.iam_policy_pb2']) + [f.name])
        files.append(fs)
        fixup_only['TrackLure'] = dict(layout='subpackage-service', fields=['depth', 'name'], required=['name'])
    # snippets=True: snippet generation stays enabled (the default), which runs the sample generator over the same API model first
    param = f'transport={transport},metadata' + ('' if snippets else ',autogen-snippets=false')
    of = None
    listed = None
    if internal:
        listed = [f'{P}.Alpha.Get', f'{P}.Alpha.Import', f'{P}.Alpha.Do2FA'] + ([f'{P}.Beta.List'] if n_services > 1 else [])
        yaml = ('type: google.api.Service\nconfig_version: 3\nname: meta.example.com\npublishing:\n  library_settings:\n'
                f'  - version: {P}\n    python_settings:\n      common:\n        selective_gapic_generation:\n'
                '          generate_omitted_as_internal: true\n          methods:\n' + ''.join(f'          - {m}\n' for m in listed))
        param += ',service-yaml=@svc.yaml@'
        of = {'svc.yaml': yaml}
    req = request(files, param, extra_dep_modules=['google.iam.v1.iam_policy_pb2'])
    desc.gate(req)
    return req, of, table, listed, fixup_only


def variants():
    for n, tr in itertools.product((1, 2, 3), ('grpc', 'rest', 'grpc+rest')):
        yield dict(services=n, transport=tr, internal=False)
    for n, tr in itertools.product((1, 2), ('grpc', 'rest', 'grpc+rest')):
        yield dict(services=n, transport=tr, internal=True)
    # a proto package without a version segment: the library package is <name> alone
    for tr in ('grpc', 'rest', 'grpc+rest'):
        yield dict(services=2, transport=tr, internal=False, package='acme.meta')
    yield dict(services=1, transport='grpc+rest', internal=True, package='acme.meta')
    for tr in ('grpc', 'grpc+rest'):
        yield dict(services=1, transport=tr, internal=False, subsvc=True)
    for tr in ('grpc', 'rest', 'grpc+rest'):
        yield dict(services=2, transport=tr, internal=False, snippets=True)
    yield dict(services=2, transport='grpc+rest', internal=True, snippets=True)


def make_job(v):
    pkg = v.get('package', P)
    req, of, table, listed, fixup_only = build(v['services'], v['transport'], v['internal'], pkg, v.get('subsvc', False), v.get('snippets', False))
    return dict(id=json.dumps(v, sort_keys=True), req=req.SerializeToString(), opt_files=of, probe='mc.probes.metadata',
                keep=['*gapic_metadata.json', 'scripts/*.py'],
                probe_args=dict(package=names.import_package(pkg)), _v=v, _table=table, _listed=listed, _pkg=pkg, _fixup_only=fixup_only)


def expected_kinds(transport):
    ks = []
    if 'grpc' in transport.split('+'):
        ks += ['grpc', 'grpc-async']
    if 'rest' in transport.split('+'):
        ks.append('rest')
    return ks


def run(ctx, only=None):
    vs = [only] if only else list(variants())
    jobs = [make_job(v) for v in vs]
    for job, res in zip(jobs, engine.run_jobs(jobs)):
        v, table, listed, P = job['_v'], job['_table'], job['_listed'], job['_pkg']
        vid = f's{v["services"]}/{v["transport"]}/{"internal" if v["internal"] else "plain"}' + ('' if P.endswith('.v1') else '/unversioned') + (
            '/subpackage-service' if v.get('subsvc') else '')
        ctx.state(1, transitions=1 + v['internal'])
        if not res['gen']['ok']:
            ctx.violation(f'generation:{res["gen"]["etype"]}:{res["gen"]["where"]}|internal={v["internal"]}',
                          f'{vid}: generator failed: {res["gen"]["emsg"][:300]}', v)
            continue
        if 'probe_error' in res:
            raise HarnessError(f'C15 probe {vid}: ' + res['probe_error'][-2000:])
        obs = res['obs']
        ctx.validated_n(1)
        if obs.get('import_error'):
            e = obs['import_error']
            ctx.violation(f'import:{e["etype"]}:{e["where"]}|internal={v["internal"]}', f'{vid}: library does not import: {e["emsg"][:300]}', v)
            continue

        def bad(kind, cls, detail):
            ctx.violation(f'{kind}|{cls}|transport={v["transport"]}|internal={v["internal"]}' + ('' if P.endswith('.v1') else '|unversioned'),
                          f'{vid}: {kind}: {detail}', v)

        mfiles = [n for n in res['files'] if n.endswith('gapic_metadata.json')]
        if len(mfiles) != 1:
            bad('metadata-file-count', '-', f'{mfiles}')
            continue
        try:
            gm = json.loads(res['files'][mfiles[0]])
        except ValueError as e:
            bad('metadata-not-json', '-', e)
            continue
        if gm.get('protoPackage') != P:
            bad('proto-package', '-', gm.get('protoPackage'))
        if gm.get('libraryPackage') != names.import_package(P):
            bad('library-package', '-', gm.get('libraryPackage'))
        svcs = gm.get('services', {})
        if set(svcs) - set(['Anglerfish'] if v.get('subsvc') else []) != set(table):
            bad('services-listed', '-', f'{sorted(svcs)} != {sorted(table)}')
        kinds = expected_kinds(v['transport'])
        for sname, rpcs in table.items():
            clients = svcs.get(sname, {}).get('clients', {})
            if set(clients) != set(kinds):
                bad('client-kinds', sname, f'{sorted(clients)} != {kinds}')
            svc_internal = v['internal'] and not any(l.startswith(f'{P}.{sname}.') for l in listed)
            for kind in kinds:
                c = clients.get(kind, {})
                cname = c.get('libraryClient')
                exp_c = ('Base' if v['internal'] and any(not f'{P}.{sname}.{r}' in listed for r in rpcs) else '') + sname + \
                        ('AsyncClient' if kind == 'grpc-async' else 'Client')
                if cname not in obs['classes']:
                    bad('client-missing', f'{sname}/{kind}', f'libraryClient {cname!r} is not a class of the imported package (has {sorted(obs["classes"])[:8]})')
                    continue
                if cname != exp_c:
                    bad('client-name', f'{sname}/{kind}', f'{cname!r} expected {exp_c!r}')
                listed_rpcs = c.get('rpcs', {})
                if set(listed_rpcs) != set(rpcs):
                    bad('rpcs-listed', f'{sname}/{kind}', f'{sorted(listed_rpcs)} != {sorted(rpcs)}')
                for rpc in rpcs:
                    ctx.evaluated(1)
                    ms = listed_rpcs.get(rpc, {}).get('methods', [])
                    if len(ms) != 1:
                        bad('method-count', f'{sname}.{rpc}/{kind}', f'{ms}')
                        continue
                    if ms[0] not in obs['classes'][cname]:
                        bad('method-missing', f'{rpc}/{kind}', f'{cname}.{ms[0]} does not exist (RPC {sname}.{rpc})')
                        continue
                    is_int = v['internal'] and f'{P}.{sname}.{rpc}' not in listed
                    if is_int != ms[0].startswith('_'):
                        bad('internal-marking', f'{rpc}/{kind}', f'{sname}.{rpc} listed={not is_int} but method is {ms[0]!r}')
                    ctx.nontrivial_case(f'{vid}|{sname}|{rpc}|{kind}')
        # fix-up script
        m2p = obs.get('method_to_params')
        if m2p is None:
            bad('fixup-unreadable', '-', obs.get('fixup_error'))
        else:
            all_rpcs = {}
            for sname, rpcs in table.items():
                for rpc, info in rpcs.items():
                    all_rpcs.setdefault(rpc, []).append(info)
            for rpc, info in job['_fixup_only'].items():
                all_rpcs.setdefault(rpc, []).append(info)
            for rpc, infos in all_rpcs.items():
                keys = [k for k in m2p if k.replace('_', '').lower() == rpc.replace('_', '').lower()]
                if len(keys) != 1:
                    bad('fixup-key', rpc, f'keys for RPC {rpc}: {keys} (table has {sorted(m2p)[:10]})')
                    continue
                got = [x.rstrip('_') if x.rstrip('_') in names.RESERVED else x for x in m2p[keys[0]]]
                exps = [[f for f in i['fields'] if f in i['required']] + [f for f in i['fields'] if f not in i['required']] for i in infos]
                if got not in exps:
                    bad('fixup-params', infos[0]['layout'], f'{rpc}: {got} not in {exps}')
            extra = set(m2p) - {k for rpc in all_rpcs for k in m2p if k.replace('_', '').lower() == rpc.replace('_', '').lower()}
            if extra:
                bad('fixup-extra-keys', '-', sorted(extra))
        ctx.outcome('judged')
        ctx.sample(dict(variant=v, services={s: sorted(r) for s, r in table.items()}, client_kinds=kinds), limit=2)
    ctx.extra['bound'] = '19 variants (incl. unversioned package) x 15 RPC names (3 streaming arities) x 8 request layouts'


def replay(ctx, state):
    run(ctx, only=state)
