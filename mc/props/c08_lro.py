"""C08 -- long-running methods return futures typed by google.longrunning.operation_info.

Type-resolution cells = (response name form x defining file) x (metadata name form x
defining file), complete product, each an LRO method of one service; rejection cells are
separate tiny APIs; every cell is driven on sync gRPC, asyncio gRPC and REST through all
poll histories not-done^k then done(response | error) under a virtual clock.
"""
import itertools

from .. import apis, desc, engine
from ..desc import field, message, method, service, file, request, OPERATION
from ..ref import names
from ..report import HarnessError

RULE = ('cells = response type option(10) x metadata type option(10) (relative/qualified name x {service file, imported file, '
        'non-imported file}, Empty, Struct) + unannotated Operation + rejection cells; histories = initial {done, not done} x '
        'not-done^k (k<=3) x {response, 3 error codes}; x {sync, asyncio, REST}; non-trivial = distinct (cell, client, history) '
        'that polled GetOperation at least once')

P = 'acme.lro.v1'
Q = lambda n: f'.{P}.{n}'
TYPE_OPTS = {
    'rel/svc-file': ('ResA', Q('ResA')), 'fq/svc-file': (f'{P}.ResA', Q('ResA')),
    'rel/imported': ('ResB', Q('ResB')), 'fq/imported': (f'{P}.ResB', Q('ResB')),
    'rel/not-imported': ('ResC', Q('ResC')), 'fq/not-imported': (f'{P}.ResC', Q('ResC')),
    # a type in the API's own operation.proto: its module name collides with api-core's `operation` module
    'rel/operation-file': ('OpFileMeta', Q('OpFileMeta')),
    # legal message name with a lower-case initial, in a non-imported file listed *after* the service's file
    'rel/lowercase-name-listed-later': ('vCluster', Q('vCluster')),
    'empty': ('google.protobuf.Empty', '.google.protobuf.Empty'),
    'struct': ('google.protobuf.Struct', '.google.protobuf.Struct'),
}
# the GetOperation rule gets an additional binding, as real service configs have
OPS_YAML = apis.MIXIN_YAML.replace("    get: '/v1/{{name=operations/*}}'\n",
                                   "    get: '/v1/{{name=operations/*}}'\n    additional_bindings:\n    - get: '/v1/{{name=projects/*/operations/*}}'\n")


def build(transport='grpc+rest', isolated=None, minimal_imports=False):
    """isolated=(response option, metadata option): a library whose service has exactly that one LRO method (same files), so that
    no other method provides the imports its code needs."""
    fb = file('acme/lro/v1/types_b.proto', P, messages=[message('ResB', [field('b', 1, 'string'), field('n', 2, 'int32')])])
    fc = file('acme/lro/v1/types_c.proto', P, messages=[message('ResC', [field('c', 1, 'string'), field('flag', 2, 'bool')])])
    fo = file('acme/lro/v1/operation.proto', P, messages=[message('OpFileMeta', [field('step', 1, 'int32'), field('note', 2, 'string')])])
    msgs = [message('ResA', [field('a', 1, 'string'), field('pct', 2, 'int32')]), message('StartRequest', [field('name', 1, 'string')])]
    meths, cells = [], []
    for i, (r, m) in enumerate(itertools.product(TYPE_OPTS, TYPE_OPTS)):
        if isolated and isolated != (r, m):
            continue
        rpc = f'Op{i}'
        meths.append(method(rpc, Q('StartRequest'), OPERATION, http=('post', f'/v1/{{name=things/*}}:op{i}', '*'),
                            lro=(TYPE_OPTS[r][0], TYPE_OPTS[m][0])))
        cells.append(dict(id=f'resp={r}|meta={m}' + ('|isolated' if isolated else ''), rpc=rpc, py=f'op{i}', resp=TYPE_OPTS[r][1], meta=TYPE_OPTS[m][1], kind='lro'))
    if not isolated:
        meths.append(method('RawOp', Q('StartRequest'), OPERATION, http=('post', '/v1/{name=things/*}:raw', '*')))
        cells.append(dict(id='unannotated', rpc='RawOp', py='raw_op', kind='raw'))
    main = file('acme/lro/v1/svc.proto', P, messages=msgs, services=[service('Lro', meths)])
    std = desc.std_dep_names()
    fb.dependency.extend(std)
    fc.dependency.extend(std)
    fo.dependency.extend(std)
    fz = file('acme/lro/v1/types_z.proto', P, messages=[message('vCluster', [field('nodes', 1, 'int32'), field('label', 2, 'string')])])
    fz.dependency.extend(std)
    if minimal_imports:
        # wave 7: the service's file imports only what its *descriptors* need (annotations, client, operations and types_b);
        # empty.proto / struct.proto are then named by the operation_info strings alone, as in a typical Delete* LRO
        main.dependency.extend([n for n in std if n in ('google/api/annotations.proto', 'google/api/client.proto',
                                                        'google/longrunning/operations.proto')] + [fb.name])
        assert len(main.dependency) == 4, list(main.dependency)
    else:
        main.dependency.extend(std + [fb.name])
    req = request([fb, fc, fo, main, fz], f'transport={transport},autogen-snippets=false,service-yaml=@svc.yaml@')
    desc.gate(req)
    return req, {'svc.yaml': OPS_YAML.format(service=f'{P}.Lro')}, cells


def beta_job(ctx):
    """Same API under package acme.lro.v1beta1 and *without* a service YAML: the REST operations client must poll under the
    API's own version prefix."""
    from google.protobuf import text_format
    from google.protobuf.compiler import plugin_pb2
    req, of, cells = build('rest')
    txt = text_format.MessageToString(req).replace('acme.lro.v1', 'acme.lro.v1beta1').replace('acme/lro/v1/', 'acme/lro/v1beta1/')
    req2 = plugin_pb2.CodeGeneratorRequest()
    text_format.Parse(txt, req2)
    req2.parameter = 'transport=rest,autogen-snippets=false'
    desc.gate(req2)
    part = [dict(c, resp=c.get('resp', '').replace('.acme.lro.v1.', '.acme.lro.v1beta1.'), meta=c.get('meta', '').replace('.acme.lro.v1.', '.acme.lro.v1beta1.'))
            for c in cells if c['kind'] == 'lro'][::11]
    return dict(id='lro/rest/v1beta1-no-yaml', req=req2.SerializeToString(), probe='mc.probes.lro',
                probe_args=dict(package='acme.lro_v1beta1', proto_package='acme.lro.v1beta1', cells=part, client='rest',
                                max_k=2, seed=ctx.seed, poll_prefix='/v1beta1/', op_name='projects/p1/operations/op-2'),
                _kind='drive', _client='rest-v1beta1', _cells=part)


def rejection_jobs():
    jobs = []
    for cid, lro in (('missing-response', ('', 'ResA')), ('missing-metadata', ('ResA', '')), ('missing-both', ('', '')),
                     ('unknown-response', ('NoSuchType', 'ResA')), ('unknown-metadata', ('ResA', 'acme.lro.v1.Nope'))):
        msgs = [message('ResA', [field('a', 1, 'string')]), message('StartRequest', [field('name', 1, 'string')])]
        m = method('Op', Q('StartRequest'), OPERATION, http=('post', '/v1/{name=things/*}:op', '*'), lro=lro)
        f = file('acme/lro/v1/svc.proto', P, messages=msgs, services=[service('Lro', [m])])
        req = request([f], 'transport=grpc,autogen-snippets=false')
        desc.gate(req)
        jobs.append(dict(id=f'reject/{cid}', req=req.SerializeToString(), _kind='reject', _cid=cid))
    return jobs


def make_jobs(ctx, only=None):
    req, of, cells = build()
    if only and only.get('cells'):
        cells = [c for c in cells if c['id'] in only['cells']]
    jobs = []
    n = 6
    for client in ('sync', 'asyncio', 'rest'):
        if only and only.get('client') and only['client'] != client:
            continue
        for k in range(n):
            part = cells[k::n]
            if part:
                jobs.append(dict(id=f'lro/{client}/{k}', req=req.SerializeToString(), opt_files=of, probe='mc.probes.lro',
                                 probe_args=dict(package=names.import_package(P), proto_package=P, cells=part, client=client,
                                                 max_k=3 if not ctx.thorough else 5, seed=ctx.seed),
                                 _kind='drive', _client=client, _cells=part))
    # variants on a sample of the cells: client logging at DEBUG (all three clients); an unknown member in the first REST reply
    for client, flag in (('sync', 'debug_logging'), ('asyncio', 'debug_logging'), ('rest', 'debug_logging'), ('rest', 'unknown_member')):
        vid = f'{client}+{flag}'
        if only and only.get('client') != vid:
            continue
        part = [c for c in cells if c['kind'] == 'lro'][::9] if not only else cells
        if part:
            jobs.append(dict(id=f'lro/{vid}', req=req.SerializeToString(), opt_files=of, probe='mc.probes.lro',
                             probe_args=dict(package=names.import_package(P), proto_package=P, cells=part, client=client, max_k=2,
                                             seed=ctx.seed, **{flag: True}),
                             _kind='drive', _client=vid, _cells=part))
    # every type option once as the only response type and once as the only metadata type of a one-method service
    iso = [(t, 'empty') for t in TYPE_OPTS] + [('empty', t) for t in TYPE_OPTS if t != 'empty'] + [('rel/not-imported', 'rel/operation-file')]
    iso = [(r_, m_, False) for r_, m_ in iso] + [('empty', 'rel/svc-file', True), ('rel/svc-file', 'empty', True), ('struct', 'rel/imported', True),
                                                 ('rel/not-imported', 'struct', True), ('empty', 'fq/not-imported', True)]
    for r_, m_, minimal in iso:
        cid = f'resp={r_}|meta={m_}|isolated' + ('|minimal-imports' if minimal else '')
        if only and (only.get('client') != 'sync+isolated' or cid not in (only.get('cells') or [cid])):
            continue
        ireq, iof, icells = build(isolated=(r_, m_), minimal_imports=minimal)
        if minimal:
            icells = [dict(c, id=c['id'] + '|minimal-imports') for c in icells]
        jobs.append(dict(id=f'lro/isolated/{r_}/{m_}' + ('/minimal-imports' if minimal else ''), req=ireq.SerializeToString(), opt_files=iof, probe='mc.probes.lro',
                         probe_args=dict(package=names.import_package(P), proto_package=P, cells=icells, client='sync', max_k=1, seed=ctx.seed),
                         _kind='drive', _client='sync+isolated', _cells=icells))
    if not only:
        jobs += rejection_jobs()
    if not only or only.get('client') == 'rest-v1beta1':
        jobs.append(beta_job(ctx))
    return jobs


def run(ctx, only=None):
    jobs = make_jobs(ctx, only)
    ctx.log(f'{len(jobs)} jobs')
    total = 0
    for job, res in zip(jobs, engine.run_jobs(jobs)):
        if job['_kind'] == 'reject':
            ctx.state(1)
            ctx.validated_n(1)
            ctx.evaluated(1)
            if res['gen']['ok']:
                ctx.violation(f'reject/{job["_cid"]}|accepted', f'LRO method with {job["_cid"]} was accepted by the generator '
                              f'({len(res["names"])} files emitted)', dict(kind='reject'))
            else:
                ctx.outcome('rejected:' + res['gen']['etype'])
            continue
        st = dict(client=job['_client'], cells=[c['id'] for c in job['_cells']][:3])
        tag = (job['_cells'][0]['id'] + '|') if job['_client'] == 'sync+isolated' else ''
        if not res['gen']['ok']:
            ctx.violation(f'{tag}generation:{res["gen"]["etype"]}:{res["gen"]["where"]}', f'generator failed: {res["gen"]["emsg"][:300]}', st)
            continue
        if 'probe_error' in res:
            raise HarnessError(f'C08 probe {job["id"]}: ' + res['probe_error'][-2500:])
        obs = res['obs']
        if obs.get('import_error'):
            e = obs['import_error']
            ctx.violation(f'{tag}import:{e["etype"]}:{e["where"]}', f'library does not import: {e["emsg"]}', st)
            continue
        ctx.state(obs['histories'], transitions=obs['polls'] + obs['histories'])
        ctx.validated_n(obs['histories'])
        ctx.evaluated(obs['histories'])
        total += obs['histories']
        for k in obs['nontrivial']:
            ctx.nontrivial_case(f'{job["_client"]}|{k}')
        for k, v in obs['outcomes'].items():
            ctx.outcome(k, v)
        for s in obs['samples']:
            ctx.sample(dict(client=job['_client'], **s))
        for f in obs['failures']:
            ctx.violation(f'{f["cell"]}|{job["_client"]}|{f["kind"]}', f'{f["cell"]} {job["_client"]} history={f["history"]}: {f["kind"]}: {f["detail"]}',
                          dict(client=job['_client'], cells=[f['cell']]))
    if not only and total < 3000 and not ctx.violations:
        raise HarnessError(f'C08 exploration collapsed: {total} histories')
    ctx.extra['bound'] = 'not-done^k with k<=3 (5 thorough); 100 type-resolution cells'
    ctx.assume('polling runs under a virtual clock; api-core operation futures are trusted')


def replay(ctx, state):
    run(ctx, only=state)
