"""C19 -- resource path helpers build and parse names as mutual inverses.

Patterns are generated breadth-first from a segment grammar; every pattern becomes a
resource visible to a service (message resource / file-level definition / child_type
reference / type reference); the emitted static helpers are driven with bounded-exhaustive
segment values and reference-generated near misses.
"""
import itertools

from .. import desc, engine
from ..desc import field, message, method, service, file, request
from ..ref import names
from ..report import HarnessError

RULE = ('patterns = all sequences of <=d segments over {literal, {v}, {v}-{w}, {v}_{w}, {v}~{w}, {v}.{w}, {a}-{b}~{c}} with an '
        'optional trailing {v=**} or trailing literal, <=6 variables, plus "*"; x 12 resource sources (+ an internal-mode library); values = every class for '
        'all variables + every single-variable deviation; near misses from the reference tokenizer; non-trivial = distinct '
        '(pattern, valuation) with >=1 variable')

P = 'acme.res.v1'
Q = lambda n: f'.{P}.{n}'
DOM = 'acme.googleapis.com'
SEG_KINDS = ['lit', 'var', 'pair-', 'pair_', 'pair~', 'pair.', 'triple']


def patterns(depth):
    out = ['*']
    for d in range(1, depth + 1):
        for kinds in itertools.product(SEG_KINDS, repeat=d):
            for tail in ('', 'dstar'):
                segs, nv, nl = [], 0, 0

                def var():
                    nonlocal nv
                    nv += 1
                    # the second variable of a pattern has a one-letter name ({z}), the others two letters and more
                    return 'z' if nv == 2 else f'v{nv}'
                for k in kinds:
                    if k == 'lit':
                        nl += 1
                        segs.append(f'lits{nl}')
                    elif k == 'var':
                        segs.append('{%s}' % var())
                    elif k.startswith('pair'):
                        segs.append('{%s}%s{%s}' % (var(), k[4], var()))
                    else:
                        segs.append('{%s}-{%s}~{%s}' % (var(), var(), var()))
                if tail == 'dstar':
                    segs.append('{%s=**}' % var())
                if nv == 0 or nv > 6:
                    continue
                if len(segs) > depth:
                    continue
                out.append('/'.join(segs))
    return out


SOURCES = ['msg-field', 'file-def', 'child-type', 'type-ref', 'dep-file-def', 'dep-msg-ref', 'lro-response', 'deep-ref', 'redeclared-common',
           'common', 'in-resource-response', 'map-value', 'response-ref', 'deep-child-ref']
COMMON_TYPES = [('cloudresourcemanager.googleapis.com/Project', 'project'), ('cloudresourcemanager.googleapis.com/Organization', 'organization'),
                ('cloudresourcemanager.googleapis.com/Folder', 'folder'), ('cloudbilling.googleapis.com/BillingAccount', 'billing_account'),
                ('locations.googleapis.com/Location', 'location')]


def type_name(i):
    a = []
    n = i
    for _ in range(3):
        a.append(chr(ord('a') + n % 26))
        n //= 26
    s = ''.join(reversed(a))
    return s.capitalize() + 'Thing'


def build(pats, chunk_id, internal=False):
    """One library: every pattern is a resource visible to service Res.  internal=True: selective generation in internal
    mode with only Get listed, so GetHolder and Run are internal methods -- their resources stay visible to the service."""
    msgs, defs, cells = [], [], []
    dep_defs, dep_msgs = [], []
    lro_fields = [field('tag', 1, 'string')]
    rq_fields, rs_fields = [field('name', 1, 'string')], []
    deep_fields = [field('leaf', 1, 'string')]
    holder_fields = [field('name', 1, 'string')]
    map_fields, map_entries = [], []
    redeclared = list(COMMON_TYPES)
    for j, pat in enumerate(pats):
        i = chunk_id * 10000 + j
        tn = type_name(j)
        rtype = f'{DOM}/{tn}'
        src = j % 12
        src = {9: 10, 10: 11, 11: 12}.get(src, src)       # 9 is the id of the built-in common resources
        helper = names.snake(tn)
        if src == 8 and (not redeclared or pat == '*'):
            src = 7
        if src == 12:     # file-level definition referenced only by a field of the *response*
            defs.append((rtype, pat))
            rs_fields.append(field(f'f{j}', len(rs_fields) + 1, 'string', ref=rtype))
        elif src == 10:     # resource message embedded in a response that is itself a resource message
            msgs.append(message(tn, [field('name', 1, 'string')], resource=(rtype, pat)))
            holder_fields.append(field(f'f{j}', len(holder_fields) + 1, Q(tn)))
        elif src == 11:   # resource message reachable only as the value type of a map field
            msgs.append(message(tn, [field('name', 1, 'string')], resource=(rtype, pat)))
            mf, me = desc.map_field(Q('GetRs'), f'm{j}', 500 + len(map_entries), 'string', Q(tn))
            map_fields.append(mf)
            map_entries.append(me)
        elif src == 8:      # the API declares one of the five well-known resource types itself, with its own pattern
            rtype, helper = redeclared.pop(0)
            defs.append((rtype, pat))
            rq_fields.append(field(f'f{j}', len(rq_fields) + 1, 'string', child_ref=rtype))
        elif src == 7:    # file-level definition referenced only from a message three levels below the request
            defs.append((rtype, pat))
            deep_fields.append(field(f'f{j}', len(deep_fields) + 1, 'string', ref=rtype))
        elif src == 6:      # message resource reachable only through the response type of a long-running operation
            msgs.append(message(tn, [field('name', 1, 'string')], resource=(rtype, pat)))
            lro_fields.append(field(f'f{j}', len(lro_fields) + 1, Q(tn)))
        elif src == 4:      # file-level definition in an imported file of another package
            dep_defs.append((rtype, pat))
            rq_fields.append(field(f'f{j}', len(rq_fields) + 1, 'string', ref=rtype))
        elif src == 5:    # message resource in an imported file of another package, referenced by type
            dep_msgs.append(message(tn, [field('name', 1, 'string')], resource=(rtype, pat)))
            rq_fields.append(field(f'f{j}', len(rq_fields) + 1, 'string', ref=rtype))
        elif src == 0:      # message resource used as a response field type
            msgs.append(message(tn, [field('name', 1, 'string')], resource=(rtype, pat)))
            rs_fields.append(field(f'f{j}', len(rs_fields) + 1, Q(tn)))
        elif src == 1:    # file-level definition referenced by a request field
            defs.append((rtype, pat))
            rq_fields.append(field(f'f{j}', len(rq_fields) + 1, 'string', ref=rtype))
        elif src == 2:    # message resource (not used as a field type) referenced through child_type
            msgs.append(message(tn, [field('name', 1, 'string')], resource=(rtype, pat)))
            rq_fields.append(field(f'f{j}', len(rq_fields) + 1, 'string', child_ref=rtype))
        else:             # message resource referenced through type
            msgs.append(message(tn, [field('name', 1, 'string')], resource=(rtype, pat)))
            rq_fields.append(field(f'f{j}', len(rq_fields) + 1, 'string', ref=rtype))
        cells.append(dict(id=f'{SOURCES[src]}:{pat}', pattern=pat, helper=helper, source=src))
    # wave 7: a file-level definition whose *only* link to the service is a child_type reference on a field of a message
    # three levels below the request (e.g. request.scope.parent); a few patterns per library, on top of the rotation above
    for j, pat in list(enumerate(pats))[:6]:
        tn = 'Nested' + type_name(j)
        rtype = f'{DOM}/{tn}'
        defs.append((rtype, pat))
        deep_fields.append(field(f'c{j}', len(deep_fields) + 1, 'string', child_ref=rtype))
        cells.append(dict(id=f'deep-child-ref:{pat}', pattern=pat, helper=names.snake(tn), source=13))
    msgs.append(message('Deep3', deep_fields))
    msgs.append(message('Deep2', [field('d3', 1, Q('Deep3')), field('x', 2, 'int32')]))
    msgs.append(message('Deep1', [field('d2', 1, Q('Deep2'), repeated=True)]))
    rq_fields.append(field('deep', len(rq_fields) + 1, Q('Deep1')))
    msgs.append(message('GetRq', rq_fields))
    msgs.append(message('GetRs', rs_fields + map_fields, nested=map_entries))
    msgs.append(message('Holder', holder_fields, resource=(f'{DOM}/Holder', 'holders/{holder}')))
    msgs.append(message('LroOut', lro_fields))
    msgs.append(message('LroMeta', [field('pct', 1, 'int32')]))
    from ..desc import OPERATION
    f = file('acme/res/v1/res.proto', P, messages=msgs, resource_defs=defs,
             services=[service('Res', [method('Get', Q('GetRq'), Q('GetRs')), method('GetHolder', Q('GetRq'), Q('Holder')),
                                       method('Run', Q('GetRq'), OPERATION, lro=('LroOut', 'LroMeta'))])])
    dep = file('acme/shared/v1/resources.proto', 'acme.shared.v1', messages=dep_msgs, resource_defs=dep_defs)
    std = desc.std_dep_names()
    dep.dependency.extend(std)
    f.dependency.extend(std + [dep.name])
    if internal:
        y = ('type: google.api.Service\nconfig_version: 3\nname: res.example.com\npublishing:\n  library_settings:\n'
             f'  - version: {P}\n    python_settings:\n      common:\n        selective_gapic_generation:\n'
             f'          generate_omitted_as_internal: true\n          methods:\n          - {P}.Res.Get\n')
        req = request([f], 'transport=grpc,autogen-snippets=false,service-yaml=@svc.yaml@', extra_dep_files=[dep])
        desc.gate(req)
        return req, [dict(c, id='internal-mode/' + c['id']) for c in cells], {'svc.yaml': y}
    req = request([f], 'transport=grpc,autogen-snippets=false', extra_dep_files=[dep])
    desc.gate(req)
    return req, cells


COMMON = [('billing_account', 'billingAccounts/{billing_account}'), ('folder', 'folders/{folder}'),
          ('organization', 'organizations/{organization}'), ('project', 'projects/{project}'),
          ('location', 'projects/{project}/locations/{location}')]


def jobs_for(ctx, only=None):
    pats = patterns(4 if ctx.thorough else 3)
    if only:
        pats = [p for p in pats if p in only['patterns']]
    n = 16 if len(pats) > 200 else 1
    jobs = []
    for c in range(n):
        chunk = pats[c::n]
        if not chunk or (only and (only.get('star') or only.get('internal'))):
            continue
        req, cells = build(chunk, c)
        common = [dict(id=f'common:{pat}', pattern=pat, helper='common_' + nm, source=9) for nm, pat in COMMON] if c == 0 else []
        jobs.append(dict(id=f'res/{c}', req=req.SerializeToString(), probe='mc.probes.paths',
                         probe_args=dict(package=names.import_package(P), cells=cells + common, thorough=ctx.thorough,
                                         seed=ctx.seed), _cells=cells + common))
    if not only or only.get('star'):
        # the bare wildcard pattern once per source (in the pattern list it meets the first source only)
        req, cells = build(['*'] * 12, 98)
        cells = [dict(c, id='star/' + c['id']) for c in cells]
        jobs.append(dict(id='res/star', req=req.SerializeToString(), probe='mc.probes.paths',
                         probe_args=dict(package=names.import_package(P), cells=cells, thorough=ctx.thorough, seed=ctx.seed), _cells=cells))
    if pats and (not only or only.get('internal')):
        # the same sources once more in a library whose other RPCs are internal methods
        chunk = pats[1:60:2] if not only else pats
        req, cells, of = build(chunk, 99, internal=True)
        jobs.append(dict(id='res/internal-mode', req=req.SerializeToString(), opt_files=of, probe='mc.probes.paths',
                         probe_args=dict(package=names.import_package(P), cells=cells, thorough=ctx.thorough, seed=ctx.seed,
                                         client='BaseResClient'), _cells=cells))
    return jobs


def run(ctx, only=None):
    jobs = jobs_for(ctx, only)
    ctx.log(f'{sum(len(j["_cells"]) for j in jobs)} resource patterns in {len(jobs)} libraries')
    calls = 0
    for job, res in zip(jobs, engine.run_jobs(jobs)):
        st = dict(patterns=[c['pattern'] for c in job['_cells']][:4])
        if not res['gen']['ok']:
            ctx.violation(f'generation:{res["gen"]["etype"]}:{res["gen"]["where"]}', f'generator failed: {res["gen"]["emsg"][:300]}', st)
            continue
        if 'probe_error' in res:
            raise HarnessError(f'C19 probe {job["id"]}: ' + res['probe_error'][-2000:])
        obs = res['obs']
        if obs.get('import_error'):
            e = obs['import_error']
            ctx.violation(f'import:{e["etype"]}:{e["where"]}', f'library does not import: {e["emsg"]}', st)
            continue
        ctx.state(len(job['_cells']), transitions=obs['valuations'])
        ctx.validated_n(len(job['_cells']))
        ctx.evaluated(obs['calls'])
        calls += obs['calls']
        for k in obs['nontrivial']:
            ctx.nontrivial_case(k)
        for k, v in obs['outcomes'].items():
            ctx.outcome(k, v)
        for s in obs['samples']:
            ctx.sample(s)
        for f in obs['failures']:
            ctx.violation(f'{f["kind"]}|{f["cls"]}', f'{f["cell"]}: {f["kind"]}: {f["detail"]}', dict(patterns=[f['pattern']], internal=str(f['cell']).startswith('internal-mode/'), star=str(f['cell']).startswith('star/')))
    if not only and calls < 20000 and not ctx.violations:
        raise HarnessError(f'C19 exploration collapsed: {calls} helper calls')
    ctx.extra['bound'] = f'pattern depth <= {4 if ctx.thorough else 3} segments'
    ctx.assume('multi-pattern resources: only the first pattern has helpers (upstream convention); not in this space')


def replay(ctx, state):
    run(ctx, only=state)
