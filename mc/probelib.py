"""Helpers for probe scripts (run in the fresh interpreter next to the emitted library)."""
import json
import os
import sys
import traceback

from google.protobuf import descriptor_pool, message_factory, json_format
from google.protobuf.compiler import plugin_pb2
from google.protobuf.descriptor import FieldDescriptor as FD


class Probe:
    def __init__(self):
        # extensions must be registered before the request is parsed, or annotations end up as unknown fields
        from google.api import (annotations_pb2, client_pb2, field_behavior_pb2, resource_pb2, routing_pb2,  # noqa: F401
                                field_info_pb2)
        from google.longrunning import operations_pb2  # noqa: F401
        from google.cloud import extended_operations_pb2  # noqa: F401
        self.args_path, self.out_path = sys.argv[1], sys.argv[2]
        with open(self.args_path) as f:
            self.args = json.load(f)
        self.req = None
        self.pool = None
        p = os.path.join(os.path.dirname(self.args_path), '_request.bin')
        if os.path.exists(p):
            with open(p, 'rb') as f:
                self.req = plugin_pb2.CodeGeneratorRequest.FromString(f.read())
            self.pool = descriptor_pool.DescriptorPool()
            for fd in self.req.proto_file:
                self.pool.Add(fd)

    def cls(self, full_name):
        """Dynamic message class built from the *input* descriptors."""
        return message_factory.GetMessageClass(self.pool.FindMessageTypeByName(full_name.lstrip('.')))

    def desc(self, full_name):
        return self.pool.FindMessageTypeByName(full_name.lstrip('.'))

    def finish(self, out):
        with open(self.out_path, 'w') as f:
            json.dump(out, f, default=_default)


def _default(o):
    if isinstance(o, bytes):
        return {'__bytes__': o.hex()}
    if isinstance(o, (set, frozenset)):
        return sorted(o, key=repr)
    return repr(o)


def exc_info(e, emitted_only=True):
    """Compact description of an exception raised by emitted/runtime code."""
    tb = traceback.extract_tb(e.__traceback__)
    where = ''
    for fr in reversed(tb):
        if '_probe' in fr.filename or '/verif/mc/' in fr.filename:
            continue
        where = f'{os.path.basename(fr.filename)}:{fr.name}'
        break
    return dict(etype=type(e).__name__, emsg=str(e)[:500], where=where)


def run(main):
    p = Probe()
    out = main(p)
    p.finish(out)


# ---------------------------------------------------------------- valuations

INT_RANGES = {
    FD.TYPE_INT32: (-2**31, 2**31 - 1), FD.TYPE_SINT32: (-2**31, 2**31 - 1), FD.TYPE_SFIXED32: (-2**31, 2**31 - 1),
    FD.TYPE_INT64: (-2**63, 2**63 - 1), FD.TYPE_SINT64: (-2**63, 2**63 - 1), FD.TYPE_SFIXED64: (-2**63, 2**63 - 1),
    FD.TYPE_UINT32: (0, 2**32 - 1), FD.TYPE_FIXED32: (0, 2**32 - 1),
    FD.TYPE_UINT64: (0, 2**64 - 1), FD.TYPE_FIXED64: (0, 2**64 - 1),
}

STRINGS = ['x', 'a b/c', 'Zoë €&=%?#"\\\n']
BYTES = [b'\x01', b'\x00\xff\x7f"\\']


def scalar_palette(fd, seed=0):
    """Non-default values of a scalar/enum field: typical first, then boundaries."""
    t = fd.type
    if t in INT_RANGES:
        lo, hi = INT_RANGES[t]
        vals = [7 + seed % 5, hi]
        if lo < 0:
            vals.append(lo)
        return vals
    if t == FD.TYPE_BOOL:
        return [True]
    if t == FD.TYPE_STRING:
        return [STRINGS[0] + str(seed % 7)] + STRINGS[1:]
    if t == FD.TYPE_BYTES:
        return list(BYTES)
    if t == FD.TYPE_DOUBLE:
        return [1.5 + seed % 3, -2.25e100, 5e-324]
    if t == FD.TYPE_FLOAT:
        return [1.5 + seed % 3, -2.5e10]
    if t == FD.TYPE_ENUM:
        nz = [v.number for v in fd.enum_type.values if v.number != 0]
        return nz[:2] or [0]
    raise ValueError(t)


def is_map(fd):
    return (fd.type == FD.TYPE_MESSAGE and fd.label == FD.LABEL_REPEATED
            and fd.message_type.GetOptions().map_entry)


def set_field(msg, fd, variant=0, depth=2, seed=0):
    """Set field fd of dynamic message msg to its `variant`-th palette value.
    Returns False when the variant does not exist."""
    if is_map(fd):
        kfd = fd.message_type.fields_by_name['key']
        vfd = fd.message_type.fields_by_name['value']
        keys = scalar_palette(kfd, seed)
        if variant >= len(keys):
            return False
        k = keys[variant]
        if vfd.type == FD.TYPE_MESSAGE:
            sub = getattr(msg, fd.name)[k]
            sub.SetInParent()
            fill_some(sub, depth - 1, seed)
        else:
            getattr(msg, fd.name)[k] = scalar_palette(vfd, seed)[variant % len(scalar_palette(vfd, seed))]
        return True
    if fd.type == FD.TYPE_MESSAGE:
        if fd.label == FD.LABEL_REPEATED:
            if variant > 1:
                return False
            for i in range(variant + 1):
                sub = getattr(msg, fd.name).add()
                if i == 0:
                    fill_some(sub, depth - 1, seed)
            return True
        if variant > 1:
            return False
        sub = getattr(msg, fd.name)
        sub.SetInParent()
        if variant == 1:
            fill_some(sub, depth - 1, seed)
        return True
    vals = scalar_palette(fd, seed)
    if fd.label == FD.LABEL_REPEATED:
        if variant > 1:
            return False
        getattr(msg, fd.name).extend(vals[:1] if variant == 0 else vals + vals[:1])
        return True
    if variant == len(vals) and fd.has_presence and fd.containing_oneof is not None:
        # explicit presence: the default value, explicitly set, is observable on the wire
        setattr(msg, fd.name, fd.default_value if fd.type != FD.TYPE_ENUM else fd.enum_type.values[0].number)
        return True
    if variant >= len(vals):
        return False
    setattr(msg, fd.name, vals[variant])
    return True


def fill_some(msg, depth, seed=0):
    """Set the first settable scalar-ish field (used for nested payloads)."""
    if depth <= 0:
        return
    if msg.DESCRIPTOR.full_name.startswith('google.protobuf.') and msg.DESCRIPTOR.full_name not in (
            'google.protobuf.Empty',):
        fill_wkt(msg, seed)
        return
    for fd in msg.DESCRIPTOR.fields:
        if fd.type != FD.TYPE_MESSAGE and not fd.containing_oneof:
            set_field(msg, fd, 0, depth, seed)
            return
    for fd in msg.DESCRIPTOR.fields:
        if fd.type != FD.TYPE_MESSAGE:
            set_field(msg, fd, 0, depth, seed)
            return


def fill_wkt(msg, seed=0):
    n = msg.DESCRIPTOR.full_name
    if n == 'google.protobuf.Timestamp':
        msg.seconds, msg.nanos = 1_600_000_000 + seed, 5000
    elif n == 'google.protobuf.Duration':
        msg.seconds, msg.nanos = 3 + seed, 500_000_000
    elif n == 'google.protobuf.FieldMask':
        msg.paths.append('title')
    elif n == 'google.protobuf.Struct':
        msg.fields['k'].string_value = 'v'
    elif n == 'google.protobuf.Value':
        msg.string_value = 'v'
    elif n == 'google.protobuf.ListValue':
        msg.values.add().number_value = 1.0
    elif n == 'google.protobuf.Any':
        msg.type_url, msg.value = 'type.googleapis.com/google.protobuf.Empty', b''
    elif n.endswith('Value') and msg.DESCRIPTOR.fields_by_name.get('value') is not None:
        fd = msg.DESCRIPTOR.fields_by_name['value']
        setattr(msg, 'value', scalar_palette(fd, seed)[0])


def fill_all(msg, depth=2, seed=0):
    seen_oneofs = set()
    for fd in msg.DESCRIPTOR.fields:
        o = fd.containing_oneof
        if o is not None and not _synthetic(o):
            if o.name in seen_oneofs:
                continue
            seen_oneofs.add(o.name)
        if fd.type == FD.TYPE_MESSAGE and not is_map(fd) and fd.message_type is msg.DESCRIPTOR and depth <= 1:
            continue
        if fd.type == FD.TYPE_MESSAGE and depth <= 0:
            continue
        set_field(msg, fd, 1 if (fd.type == FD.TYPE_MESSAGE and not is_map(fd) and fd.label != FD.LABEL_REPEATED) else 0,
                  depth, seed)
    return msg


_synth_cache = {}


def _synthetic(oneof):
    """proto3 `optional` synthetic oneof?  Decided by the proto3_optional bit, not by the name:
    `oneof _nick { string nick = 1; }` is a real oneof."""
    key = (oneof.containing_type.full_name, oneof.name, id(oneof.containing_type.file.pool))
    if key not in _synth_cache:
        from google.protobuf import descriptor_pb2
        dp = descriptor_pb2.DescriptorProto()
        oneof.containing_type.CopyToProto(dp)
        idx = [o.name for o in dp.oneof_decl].index(oneof.name)
        members = [f for f in dp.field if f.HasField('oneof_index') and f.oneof_index == idx]
        _synth_cache[key] = len(members) == 1 and members[0].proto3_optional
    return _synth_cache[key]


def valuations(cls, depth=2, seed=0, max_variants=3, pairs_of_oneofs=True):
    """Bounded-exhaustive valuations of a dynamic message class:
    empty; each field alone at each palette value; all fields; (label, msg)."""
    yield 'empty', cls()
    for fd in cls.DESCRIPTOR.fields:
        for v in range(max_variants):
            m = cls()
            if not set_field(m, fd, v, depth, seed):
                break
            yield f'{fd.name}#{v}', m
    yield 'all', fill_all(cls(), depth, seed)


def to_dict(msg):
    return json_format.MessageToDict(msg, preserving_proto_field_name=True)


def short(msg, n=300):
    from google.protobuf import text_format
    return text_format.MessageToString(msg, as_one_line=True)[:n]


# ------------------------------------------------------------------ harness

from mc.ref import names as _names


def native(msg, py_names=True):
    """Dynamic message -> plain python dict as a caller would write it
    (python attribute names when py_names, native ints/bytes/enum numbers)."""
    out = {}
    for fd, val in msg.ListFields():
        key = _names.py_field(fd.name) if py_names else fd.name
        if is_map(fd):
            vfd = fd.message_type.fields_by_name['value']
            if vfd.type == FD.TYPE_MESSAGE and vfd.message_type.file.package != msg.DESCRIPTOR.file.package:
                # map values of a plain-protobuf dependency type: proto-plus wants real instances there
                out[key] = {k: _default_pool_instance(v) for k, v in val.items()}
            else:
                out[key] = {k: (native(v, py_names) if vfd.type == FD.TYPE_MESSAGE else v) for k, v in val.items()}
        elif fd.type == FD.TYPE_MESSAGE:
            sub_py = py_names and not fd.message_type.file.package.startswith('google.')
            if fd.label == FD.LABEL_REPEATED:
                out[key] = [_wkt_or_native(v, sub_py) for v in val]
            else:
                out[key] = _wkt_or_native(val, sub_py)
        elif fd.label == FD.LABEL_REPEATED:
            out[key] = list(val)
        else:
            out[key] = val
    return out


def _default_pool_instance(dyn):
    from google.protobuf import descriptor_pool as _dp
    cls = message_factory.GetMessageClass(_dp.Default().FindMessageTypeByName(dyn.DESCRIPTOR.full_name))
    return cls.FromString(dyn.SerializeToString())


def _wkt_or_native(v, py_names):
    return native(v, py_names)


def wire_of(x):
    """Serialise a value returned by emitted code (proto-plus or pb2 message)."""
    if hasattr(type(x), 'serialize'):
        return type(x).serialize(x)
    if hasattr(x, '_pb'):
        return x._pb.SerializeToString()
    return x.SerializeToString()


class Lib:
    """Clients of an emitted library wired to the seams."""

    def __init__(self, package):
        import importlib
        self.pkg = importlib.import_module(package)
        self.package = package

    def _creds(self):
        from google.auth.credentials import AnonymousCredentials
        return AnonymousCredentials()

    def client_cls(self, service, asyncio_=False):
        return getattr(self.pkg, service + ('AsyncClient' if asyncio_ else 'Client'))

    def sync(self, service, clock=None):
        from mc import seams
        C = self.client_cls(service)
        ch = seams.FakeChannel(clock)
        return C(transport=C.get_transport_class('grpc')(channel=ch, credentials=self._creds())), ch

    def aio(self, service, clock=None):
        from mc import seams
        C = self.client_cls(service)
        A = self.client_cls(service, True)
        ch = seams.FakeAioChannel(clock)
        return A(transport=C.get_transport_class('grpc_asyncio')(channel=ch, credentials=self._creds())), ch

    def rest(self, service, **kw):
        C = self.client_cls(service)
        tr = C.get_transport_class('rest')(credentials=self._creds(), host='localhost:1', url_scheme='http', **kw)
        return C(transport=tr)

    def type_of(self, full_name, target_package):
        """Generated (or pb2) class for message `.pkg.Outer.Inner`."""
        import importlib
        full = full_name.lstrip('.')
        if full.startswith(target_package + '.'):
            obj = self.pkg
            for part in full[len(target_package) + 1:].split('.'):
                try:
                    obj = getattr(obj, part)
                except AttributeError:
                    if not hasattr(obj, '__path__'):
                        raise
                    try:
                        obj = importlib.import_module(f'{obj.__name__}.{part}')     # a proto sub-package
                    except ModuleNotFoundError:
                        raise AttributeError(f'{obj.__name__} has neither an attribute nor a sub-package {part!r}') from None
            return obj
        return None
