"""In-process seams used by probes (imported inside the fresh interpreter that
also imports the emitted library).  Nothing here imports gapic.

  FakeChannel      grpc.Channel: logs (arity, path, raw request bytes, metadata,
                   timeout) after applying the serializer the emitted code chose,
                   pops scripted answers and applies the emitted deserializer.
  FakeAioChannel   same for grpc.aio.Channel.
  HttpSeam         process-wide requests.adapters.HTTPAdapter.send replacement.
  VirtualClock     time.sleep/monotonic/time, utcnow, asyncio.sleep, random.uniform.
"""
import asyncio
import io
import random
import time

import grpc
from grpc import aio


# ----------------------------------------------------------------- errors

class ScriptedRpcError(grpc.RpcError, grpc.Call, grpc.Future):
    """A failed call as grpc itself would present it."""

    def __init__(self, code, details='scripted'):
        super().__init__()
        self._code, self._details = code, details

    def code(self): return self._code
    def details(self): return self._details
    def initial_metadata(self): return ()
    def trailing_metadata(self): return ()
    def is_active(self): return False
    def time_remaining(self): return None
    def cancel(self): return False
    def add_callback(self, cb): return False
    def cancelled(self): return False
    def running(self): return False
    def done(self): return True
    def result(self, timeout=None): raise self
    def exception(self, timeout=None): return self
    def traceback(self, timeout=None): return None
    def add_done_callback(self, fn): fn(self)
    def debug_error_string(self): return f'scripted {self._code}'
    def __str__(self): return f'<ScriptedRpcError {self._code}>'


class ScriptedAioRpcError(aio.AioRpcError):
    def __init__(self, code, details='scripted'):
        super().__init__(code, aio.Metadata(), aio.Metadata(), details=details)


class Err:
    """Script entry: fail the call with this status code."""

    def __init__(self, code, details='scripted'):
        self.code, self.details = code, details


class ScriptExhausted(Exception):
    pass


# ------------------------------------------------------------- sync channel

class _OkCall(grpc.Call):
    def initial_metadata(self): return ()
    def trailing_metadata(self): return ()
    def code(self): return grpc.StatusCode.OK
    def details(self): return ''
    def is_active(self): return False
    def time_remaining(self): return None
    def cancel(self): return False
    def add_callback(self, cb): return False


class _StreamReply:
    """Iterator returned for server-streaming arities; looks like a grpc call."""

    def __init__(self, items, deser, err=None):
        self._it = iter(items)
        self._deser = deser
        self._err = err

    def __iter__(self): return self

    def __next__(self):
        try:
            raw = next(self._it)
        except StopIteration:
            if self._err is not None:
                e, self._err = self._err, None
                raise ScriptedRpcError(e.code, e.details)
            raise
        return self._deser(raw) if self._deser else raw

    def cancel(self): return True
    def code(self): return grpc.StatusCode.OK
    def details(self): return ''
    def initial_metadata(self): return ()
    def trailing_metadata(self): return ()
    def is_active(self): return False
    def time_remaining(self): return None
    def add_callback(self, cb): return False


class _MultiCallable:
    def __init__(self, ch, kind, path, ser, deser):
        self.ch, self.kind, self.path, self.ser, self.deser = ch, kind, path, ser, deser

    def _invoke(self, request, timeout=None, metadata=None, credentials=None,
                wait_for_ready=None, compression=None):
        if self.kind.startswith('stream_'):
            raw = [self.ser(r) if self.ser else r for r in request]
        else:
            raw = self.ser(request) if self.ser else request
        self.ch.log.append(dict(kind=self.kind, path=self.path, raw=raw,
                                metadata=list(metadata) if metadata is not None else None,
                                timeout=timeout, t=self.ch.now()))
        reply = self.ch.next_reply(self.kind, self.path)
        if isinstance(reply, Err):
            raise ScriptedRpcError(reply.code, reply.details)
        if self.kind.endswith('_stream'):
            err = None
            if reply and isinstance(reply[-1], Err):
                reply, err = reply[:-1], reply[-1]
            return _StreamReply(reply, self.deser, err)
        return self.deser(reply) if self.deser else reply

    def __call__(self, request, **kw):
        return self._invoke(request, **kw)

    def with_call(self, request, **kw):
        return self._invoke(request, **kw), _OkCall()

    def future(self, request, **kw):
        raise NotImplementedError('FakeChannel.future')


# api-core's wrap_errors dispatches on the grpc multicallable ABCs
class _UU(_MultiCallable, grpc.UnaryUnaryMultiCallable): pass
class _US(_MultiCallable, grpc.UnaryStreamMultiCallable): pass
class _SU(_MultiCallable, grpc.StreamUnaryMultiCallable): pass
class _SS(_MultiCallable, grpc.StreamStreamMultiCallable): pass


_SYNC_MC = dict(unary_unary=_UU, unary_stream=_US, stream_unary=_SU, stream_stream=_SS)


class FakeChannel(grpc.Channel):
    def __init__(self, clock=None):
        self.log = []
        self.script = []       # FIFO of replies; or use .responder
        self.responder = None  # callable(kind, path) -> reply
        self.clock = clock
        self.created = []      # (kind, path) of every multicallable created

    def now(self):
        return self.clock.t if self.clock else None

    def next_reply(self, kind, path):
        if self.responder is not None:
            return self.responder(kind, path)
        if not self.script:
            raise ScriptExhausted(f'no scripted reply for {kind} {path}')
        return self.script.pop(0)

    def _mk(self, kind, method, request_serializer=None, response_deserializer=None,
            _registered_method=False):
        self.created.append((kind, method))
        return _SYNC_MC[kind](self, kind, method, request_serializer, response_deserializer)

    def unary_unary(self, *a, **k): return self._mk('unary_unary', *a, **k)
    def unary_stream(self, *a, **k): return self._mk('unary_stream', *a, **k)
    def stream_unary(self, *a, **k): return self._mk('stream_unary', *a, **k)
    def stream_stream(self, *a, **k): return self._mk('stream_stream', *a, **k)
    def subscribe(self, *a, **k): pass
    def unsubscribe(self, *a, **k): pass
    def close(self): pass
    def __enter__(self): return self
    def __exit__(self, *a): return False


# -------------------------------------------------------------- aio channel

_real_sleep = asyncio.sleep


async def _collect(request_iterator):
    out = []
    if request_iterator is None:
        return out
    if hasattr(request_iterator, '__aiter__'):
        async for r in request_iterator:
            out.append(r)
    else:
        for r in request_iterator:
            out.append(r)
    return out


class _AioCall:
    """Awaitable / async-iterable call object as api-core's wrappers expect."""

    def __init__(self, mc, request, kw):
        self.mc, self.request, self.kw = mc, request, kw
        self._started = False
        self._reply = None
        self._items = None
        self._err = None
        self._task = None
        try:
            asyncio.get_running_loop()
            self._task = asyncio.ensure_future(self._run())
            self._task.add_done_callback(lambda t: t.cancelled() or t.exception())
        except RuntimeError:
            pass

    async def _start(self):
        # like a real grpc.aio call, the RPC starts when the multicallable is
        # invoked (a task on the running loop), not when the call is awaited
        if self._task is None:
            self._task = asyncio.ensure_future(self._run())
        await asyncio.shield(self._task)

    async def _run(self):
        self._started = True
        mc = self.mc
        if mc.kind.startswith('stream_'):
            reqs = await _collect(self.request)
            raw = [mc.ser(r) if mc.ser else r for r in reqs]
        else:
            raw = mc.ser(self.request) if mc.ser else self.request
        md = self.kw.get('metadata')
        mc.ch.log.append(dict(kind=mc.kind, path=mc.path, raw=raw,
                              metadata=[tuple(x) for x in md] if md is not None else None,
                              timeout=self.kw.get('timeout'), t=mc.ch.now()))
        reply = mc.ch.next_reply(mc.kind, mc.path)
        if isinstance(reply, Err):
            raise ScriptedAioRpcError(reply.code, reply.details)
        if mc.kind.endswith('_stream'):
            if reply and isinstance(reply[-1], Err):
                reply, self._err = reply[:-1], reply[-1]
            self._items = list(reply)
        else:
            self._reply = mc.deser(reply) if mc.deser else reply

    def __await__(self):
        async def run():
            await self._start()
            return self._reply
        return run().__await__()

    async def wait_for_connection(self):
        # a real call surfaces connection-time failures here
        if not self.mc.kind.startswith('stream_'):
            await self._start()
        else:
            await _real_sleep(0)

    def __aiter__(self):
        async def gen():
            await self._start()
            for raw in self._items:
                yield self.mc.deser(raw) if self.mc.deser else raw
            if self._err is not None:
                e, self._err = self._err, None
                raise ScriptedAioRpcError(e.code, e.details)
        return gen()

    async def read(self):
        await self._start()
        if self._items:
            raw = self._items.pop(0)
            return self.mc.deser(raw) if self.mc.deser else raw
        return aio.EOF

    async def write(self, request):
        raise NotImplementedError

    async def done_writing(self):
        pass

    def cancel(self): return False
    def cancelled(self): return False
    def done(self): return self._started
    def add_done_callback(self, cb): pass
    def time_remaining(self): return None
    async def initial_metadata(self): return aio.Metadata()
    async def trailing_metadata(self): return aio.Metadata()
    async def code(self): return grpc.StatusCode.OK
    async def details(self): return ''


class _AioMultiCallable:
    def __init__(self, ch, kind, path, ser, deser):
        self.ch, self.kind, self.path, self.ser, self.deser = ch, kind, path, ser, deser

    def __call__(self, request=None, **kw):
        return _AioCall(self, request, kw)


class _AUU(_AioMultiCallable, aio.UnaryUnaryMultiCallable): pass
class _AUS(_AioMultiCallable, aio.UnaryStreamMultiCallable): pass
class _ASU(_AioMultiCallable, aio.StreamUnaryMultiCallable): pass
class _ASS(_AioMultiCallable, aio.StreamStreamMultiCallable): pass


_AIO_MC = dict(unary_unary=_AUU, unary_stream=_AUS, stream_unary=_ASU, stream_stream=_ASS)


class FakeAioChannel(aio.Channel):
    def __init__(self, clock=None):
        self.log = []
        self.script = []
        self.responder = None
        self.clock = clock
        self.created = []
        self._unary_unary_interceptors = []

    now = FakeChannel.now
    next_reply = FakeChannel.next_reply

    def _mk(self, kind, method, request_serializer=None, response_deserializer=None,
            _registered_method=False):
        self.created.append((kind, method))
        return _AIO_MC[kind](self, kind, method, request_serializer, response_deserializer)

    def unary_unary(self, *a, **k): return self._mk('unary_unary', *a, **k)
    def unary_stream(self, *a, **k): return self._mk('unary_stream', *a, **k)
    def stream_unary(self, *a, **k): return self._mk('stream_unary', *a, **k)
    def stream_stream(self, *a, **k): return self._mk('stream_stream', *a, **k)
    async def close(self, grace=None): pass
    def get_state(self, try_to_connect=False): return grpc.ChannelConnectivity.READY
    async def wait_for_state_change(self, last): pass
    async def channel_ready(self): pass
    async def __aenter__(self): return self
    async def __aexit__(self, *a): return False


# --------------------------------------------------------------------- HTTP

class HttpSeam:
    """Replaces requests.adapters.HTTPAdapter.send process-wide."""

    def __init__(self, clock=None):
        self.log = []
        self.script = []        # FIFO of (status, body bytes[, headers])
        self.responder = None   # callable(prepared_request) -> (status, body)
        self.clock = clock
        self._orig = None

    def install(self):
        import requests
        import requests.adapters
        seam = self

        def send(adapter, request, **kw):
            body = request.body
            if isinstance(body, str):
                body = body.encode('utf8')
            seam.log.append(dict(verb=request.method, url=request.url,
                                 headers=dict(request.headers), body=body,
                                 timeout=kw.get('timeout'),
                                 t=seam.clock.t if seam.clock else None))
            if seam.responder is not None:
                rep = seam.responder(request)
            elif seam.script:
                rep = seam.script.pop(0)
            else:
                raise ScriptExhausted(f'no scripted HTTP reply for {request.method} {request.url}')
            status, payload = rep[0], rep[1]
            r = requests.Response()
            r.status_code = status
            r._content = payload
            r.raw = io.BytesIO(payload)
            r.request = request
            r.url = request.url
            r.encoding = 'utf-8'
            r.headers['Content-Type'] = 'application/json'
            for k, v in (rep[2] if len(rep) > 2 else {}).items():
                r.headers[k] = v
            return r

        self._orig = requests.adapters.HTTPAdapter.send
        requests.adapters.HTTPAdapter.send = send
        return self

    def uninstall(self):
        import requests.adapters
        if self._orig is not None:
            requests.adapters.HTTPAdapter.send = self._orig
            self._orig = None


# -------------------------------------------------------------------- clock

class VirtualClock:
    """Install before importing the emitted library / google.api_core.retry."""

    def __init__(self, start=1_000_000.0):
        self.t = start
        self.sleeps = []

    def install(self):
        clk = self

        def sleep(s):
            clk.sleeps.append(s)
            clk.t += max(0.0, s)

        async def asleep(s, result=None):
            clk.sleeps.append(s)
            clk.t += max(0.0, s)
            return result

        time.sleep = sleep
        time.monotonic = lambda: clk.t
        time.time = lambda: clk.t
        asyncio.sleep = asleep
        random.uniform = lambda a, b: b
        import datetime
        from google.api_core import datetime_helpers
        datetime_helpers.utcnow = lambda: datetime.datetime.fromtimestamp(
            clk.t, datetime.timezone.utc).replace(tzinfo=None)
        return self
