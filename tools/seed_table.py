#!/venv/bin/python
"""Markdown table of seeded defects and which check caught them (from seeded/*/meta.json)."""
import glob, json, os
HERE = os.path.dirname(os.path.dirname(os.path.abspath(__file__)))
print('| seed | breaks | what it needs to manifest | files changed | caught by (first fingerprints) |')
print('|---|---|---|---|---|')
for d in sorted(glob.glob(os.path.join(HERE, 'seeded', '*'))):
    m = json.load(open(os.path.join(d, 'meta.json')))
    caught = []
    for p, r in sorted(m.get('checks', {}).items()):
        if r['rc'] == 1:
            fp = (r.get('first') or [''])[0].replace('fingerprint: ', '')
            caught.append(f'**{p}** ({r["violations"]}{"+" if r["violations"] >= 40 else ""} violations; `{fp[:70]}`)')
        else:
            caught.append(f'{p}: not caught')
    needs = str(m.get('needs_to_manifest', m.get('summary', '')))[:230].replace('|', '/').replace('\n', ' ')
    files = ', '.join(os.path.basename(f) for f in m.get('files_changed', []))[:80]
    print(f'| {os.path.basename(d)} | {m.get("property", "?")} | {needs} | {files} | {"; ".join(caught)} |')
