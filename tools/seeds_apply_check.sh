#!/bin/sh
# Every seeded patch must apply to the current /repo HEAD (git apply --check); lists the stale ones.
cd /repo; n=0
for d in /verif/seeded/*/; do git apply --check "$d/patch.diff" 2>/dev/null || { echo "stale: $(basename $d)"; n=$((n+1)); }; done
echo "$n stale of $(ls /verif/seeded | wc -l)"
