#!/venv/bin/python
"""Numbers for DESIGN.md section 15 from the evidence files of the last run (dev aid)."""
import json, os, sys
HERE = os.path.dirname(os.path.dirname(os.path.abspath(__file__)))
ev = sys.argv[1] if len(sys.argv) > 1 else os.path.join(HERE, 'evidence')
print('| id | states | transitions | evaluations | non-trivial | known cells | exhaustive | wall s |')
print('|----|-------:|------------:|------------:|------------:|------------:|:---:|------:|')
tot = 0
for i in range(1, 21):
    p = f'C{i:02d}'
    d = json.load(open(os.path.join(ev, p + '.json')))
    c = d['coverage']
    known = sum((c.get('known_findings_hit') or {}).values())
    wall = d.get('wall_s') or ''
    tot += wall or 0
    print(f'| {p} | {c["states"]} | {c["transitions"]} | {c["evaluations"]} | {c["distinct_nontrivial"]} | {known} | {"yes" if c["exhaustive"] else "no: " + str(c.get("caps"))} | {wall} |')
print(f'\ntotal wall: {tot:.0f} s')
