#!/venv/bin/python
"""Debug helper: tools/gen_state.py <outdir> <param> [edit ...]  -- generate one C01-style state into outdir."""
import os, sys, shutil
sys.path.insert(0, os.path.dirname(os.path.dirname(os.path.abspath(__file__))))
from mc import edits, desc, gen, engine
out, param, hist = sys.argv[1], sys.argv[2], sys.argv[3:]
req = edits.build(hist, param); desc.gate(req)
g = gen.generate_inproc(req.SerializeToString())
if not g['ok']:
    print(g['etype'], g['emsg'], g['where']); print(g['tb']); sys.exit(1)
shutil.rmtree(out, ignore_errors=True); os.makedirs(out)
res, names = engine.materialise(g['response'], out)
open(os.path.join(out, '_request.bin'), 'wb').write(req.SerializeToString())
print(len(names), 'files in', out)
