#!/bin/sh
# wave 4: known list includes waves 1-3; steer towards feature interplay and option flags
set -e
i=$1
/verif/tools/seed_prepare2.sh $i >/dev/null
cat >> /tmp/seed-$i/PROMPT.txt <<'TXT'

ADDITIONAL GUIDANCE FOR THIS ROUND: many single-site slips are already known (list above). Look for changes that only
show through the INTERPLAY of two features or through a less common OPTION: e.g. streaming x flattening, LRO x paging x
routing, oneof x optional x map fields, several services / several files / proto sub-packages, proto3 optional,
deprecated elements, api-version annotations, well-known types (Struct, Value, Any, wrappers, FieldMask, Duration),
generator options (rest-numeric-enums, lazy-import, add-iam-methods, warehouse-package-name, proto-plus-deps,
python-gapic-name / python-gapic-namespace, transport orderings, metadata, autogen-snippets) and service-YAML features
(mixins, method settings, library settings such as rest_async_io_enabled or unversioned_package_disabled, selective
generation). Prefer silent wrong behaviour over crashes, and keep each change small and plausible.
TXT
echo prepared $i
