#!/bin/sh
# wave 6: known list includes waves 1-5; two changes per property; steer towards masked / only-one-of-its-kind shapes
set -e
i=$1
/verif/tools/seed_prepare2.sh $i >/dev/null
cat >> /tmp/seed-$i/PROMPT.txt <<'TXT'

ADDITIONAL GUIDANCE FOR THIS ROUND: deliver TWO changes (m1, m2), not three. The list above is long - read it carefully
and stay away from those sites and input shapes. Both changes should preferably be in the Python sources
(gapic/schema/*.py, gapic/utils/*.py, gapic/generator/*.py, gapic/samplegen*/**.py); a template change is acceptable
only if it is silent (the library still generates, imports and answers calls). Look for defects that a *rich* test API
would MASK and that only show in a *small* one: the affected element is the only one of its kind in the API (a service
with a single RPC, the only paginated / LRO / streaming method, the only type taken from another file or package, the
only map / enum / oneof), or it is the second service / second file / second signature while the first one is fine.
Also welcome: wrong behaviour that depends on the ORDER in which things are declared (files, services, methods, fields,
options) or on a *second* call on the same client object. Prefer triggers that are ordinary in real googleapis-style
APIs. Do NOT use `git stash` (the stash is shared between worktrees); switch between clean and changed tree only with
`git apply <patch>` / `git checkout -- .`.
TXT
echo prepared $i
