#!/bin/sh
# wave 5: known list includes waves 1-4; steer towards the Python sources and multi-step histories
set -e
i=$1
/verif/tools/seed_prepare2.sh $i >/dev/null
cat >> /tmp/seed-$i/PROMPT.txt <<'TXT'

ADDITIONAL GUIDANCE FOR THIS ROUND: the list above is long - read it carefully and stay away from those sites and input
shapes. At least two of your three changes must be in the Python sources (gapic/schema/*.py, gapic/utils/*.py,
gapic/generator/*.py, gapic/samplegen*/**.py), i.e. changes that the project's own unit tests happen not to pin; the
third may be in a template. Prefer silent wrong behaviour, and prefer triggers that are ordinary in real APIs
(googleapis-style protos: resource-oriented CRUD + custom methods, LROs, pagination, streaming, field behaviours,
resource references, oneofs, maps, well-known types, several files and services) over exotic ones. Do NOT use
`git stash` (the stash is shared between worktrees); switch between clean and changed tree only with
`git apply <patch>` / `git checkout -- .`.
TXT
echo prepared $i
