#!/bin/sh
# Run every quick check on the current tree; print one summary line per property.
cd "$(dirname "$0")/.."
for p in C01 C02 C03 C04 C05 C06 C07 C08 C09 C10 C11 C12 C13 C14 C15 C16 C17 C18 C19 C20; do
  out=$(./check $p --tier ${1:-quick} 2>&1); rc=$?
  echo "rc=$rc $(echo "$out" | tail -1 | cut -c1-230)"
done
