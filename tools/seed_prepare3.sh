#!/bin/sh
# wave 3: like seed_prepare2.sh (known list now includes wave 2), plus a steer towards silent wrong behaviour
set -e
i=$1
/verif/tools/seed_prepare2.sh $i >/dev/null
cat >> /tmp/seed-$i/PROMPT.txt <<'TXT'

ADDITIONAL GUIDANCE FOR THIS ROUND: prefer changes whose effect is SILENT (the library still generates, imports and
answers, but does the wrong thing on the wire / returns the wrong value / emits a wrong file or name) over changes that
crash. Prefer sites that the earlier changes above did not touch: look at every mechanism listed under "anchors" in
property.json and pick ones not yet used; consider both template sets where the property allows, the less common
transports (REST, asyncio), option flags, and multi-step or non-initial situations (second call, second client,
second service, later page, later retry).
TXT
echo prepared $i
