#!/venv/bin/python
"""Confirm a seeded defect and run our checks against it.

usage: tools/try_seed.py <dir with patch.diff demo.py meta.json> <seed id> <PROP> [more PROPs...]

1. scratch worktree of /repo (outside /repo and /verif): demo passes clean, fails with the
   patch, pinned suite still `609 passed`; worktree removed.
2. patch applied to /repo, `./check PROP` run, /repo restored (git checkout -- .).
3. result stored as /verif/seeded/<seed id>/ (patch.diff, demo.py, meta.json).
"""
import json
import os
import re
import shutil
import subprocess
import sys

VERIF = os.path.dirname(os.path.dirname(os.path.abspath(__file__)))
src, sid, props = sys.argv[1], sys.argv[2], sys.argv[3:]
skip_confirm = os.environ.get('SKIP_CONFIRM') == '1'
wt = f'/tmp/wt-verify-{os.getpid()}'


def sh(cmd, **kw):
    return subprocess.run(cmd, shell=True, capture_output=True, text=True, **kw)


meta = json.load(open(os.path.join(src, 'meta.json'))) if os.path.exists(os.path.join(src, 'meta.json')) else {}
patch = os.path.abspath(os.path.join(src, 'patch.diff'))
demo = os.path.abspath(os.path.join(src, 'demo.py'))
confirm = {}
if not skip_confirm:
    sh(f'git -C /repo worktree add -q --detach {wt} HEAD')
    try:
        env = dict(os.environ, PYTHONPATH=wt)
        r0 = subprocess.run(['/venv/bin/python', demo, wt], env=env, capture_output=True, text=True, timeout=900)
        confirm['demo_clean_rc'] = r0.returncode
        a = sh(f'git -C {wt} apply {patch}')
        confirm['apply_rc'] = a.returncode
        r1 = subprocess.run(['/venv/bin/python', demo, wt], env=env, capture_output=True, text=True, timeout=900)
        confirm['demo_patched_rc'] = r1.returncode
        confirm['demo_patched_tail'] = (r1.stdout + r1.stderr)[-400:]
        t = subprocess.run('/venv/bin/python -m pytest -q -p no:cacheprovider --timeout=900 --continue-on-collection-errors 2>&1 | tail -1',
                           shell=True, cwd=wt, env=env, capture_output=True, text=True)
        confirm['suite'] = t.stdout.strip()
    finally:
        sh(f'git -C /repo worktree remove --force {wt}')
        shutil.rmtree(wt, ignore_errors=True)
    ok = (confirm['demo_clean_rc'] == 0 and confirm['apply_rc'] == 0 and confirm['demo_patched_rc'] != 0
          and re.search(r'\b609 passed', confirm['suite']) and '30 error' in confirm['suite'] and 'failed' not in confirm['suite'])
    confirm['confirmed'] = bool(ok)
    print('CONFIRM', json.dumps(confirm)[:700])

results = {}
use_wt = os.environ.get('USE_WORKTREE') == '1'      # run the checks against a patched scratch worktree (VERIF_REPO) instead of /repo
if use_wt:
    cwt = f'/tmp/wt-check-{os.getpid()}'
    sh(f'git -C /repo worktree add -q --detach {cwt} HEAD')
    a = sh(f'git -C {cwt} apply {patch}')
    assert a.returncode == 0, a.stderr
    evd = f'/tmp/ev-check-{os.getpid()}'
    env = dict(os.environ, VERIF_REPO=cwt, VERIF_EVIDENCE_DIR=evd)
else:
    assert sh('git -C /repo status --porcelain').stdout.strip() == '', '/repo not clean'
    a = sh(f'git -C /repo apply {patch}')
    assert a.returncode == 0, a.stderr
    env = dict(os.environ)
try:
    for prop in props:
        r = sh(f'./check {prop} --tier quick', cwd=VERIF, env=env)
        viol = [l for l in r.stdout.splitlines() if l.startswith('VIOLATION')]
        fps = [l.strip() for l in r.stdout.splitlines() if l.strip().startswith('fingerprint:')]
        results[prop] = dict(rc=r.returncode, violations=len(viol), first=fps[:3], tail=r.stdout.strip().splitlines()[-1:] )
        print('CHECK', prop, 'rc', r.returncode, 'violations', len(viol), fps[:2])
finally:
    if use_wt:
        sh(f'git -C /repo worktree remove --force {cwt}')
        shutil.rmtree(cwt, ignore_errors=True)
        shutil.rmtree(evd, ignore_errors=True)
    else:
        sh('git -C /repo checkout -- .')
        # evidence files were rewritten by the run on the patched tree: restore the committed ones
        sh('git checkout -- evidence', cwd=VERIF)
        shutil.rmtree(os.path.join(VERIF, 'evidence', 'replays'), ignore_errors=True)
if not use_wt:
    assert sh('git -C /repo status --porcelain').stdout.strip() == ''

out = os.path.join(VERIF, 'seeded', sid)
os.makedirs(out, exist_ok=True)
shutil.copy(patch, os.path.join(out, 'patch.diff'))
shutil.copy(demo, os.path.join(out, 'demo.py'))
prev = {}
if os.path.exists(os.path.join(out, 'meta.json')):
    prev = json.load(open(os.path.join(out, 'meta.json')))
meta = dict(prev, **meta)
if confirm:
    meta['confirmation'] = confirm
meta.setdefault('checks', {}).update(results)
meta['what_we_ran'] = ('scratch worktree: demo.py on clean tree (rc 0), git apply patch.diff, demo.py (rc != 0), pinned suite '
                       '(609 passed, 30 pre-existing errors); then git -C /repo apply, ./check <PROP> --tier quick, git -C /repo checkout -- .')
json.dump(meta, open(os.path.join(out, 'meta.json'), 'w'), indent=1)
print('DETECTED' if any(v['rc'] == 1 for v in results.values()) else 'MISSED', sid)
