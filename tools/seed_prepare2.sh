#!/bin/sh
# wave 2: like seed_prepare.sh, plus a list of already-known seeded changes to avoid duplicates
set -e
i=$1; d=/tmp/wt-$i
git -C /repo worktree add -q --detach $d HEAD
mkdir -p /tmp/seed-$i
/venv/bin/python - "$i" <<'PY'
import json, sys, glob, os
i = sys.argv[1]
for l in open('/verif/properties.jsonl'):
    p = json.loads(l)
    if p['id'] == i:
        json.dump(p, open(f'/tmp/seed-{i}/property.json', 'w'), indent=1)
known = []
for d in sorted(glob.glob(f'/verif/seeded/{i}-*')):
    m = json.load(open(os.path.join(d, 'meta.json')))
    known.append('- ' + str(m.get('summary', ''))[:300].replace('\n', ' '))
prompt = open('/verif/tools/seed_prompt.txt').read().replace('__WT__', f'/tmp/wt-{i}').replace('__OUT__', f'/tmp/seed-{i}')
prompt += ('\n\nALREADY KNOWN (do NOT repeat these or close variants; find changes in other code paths, other input shapes, '
           'other option combinations):\n' + '\n'.join(known) + '\n')
open(f'/tmp/seed-{i}/PROMPT.txt', 'w').write(prompt)
PY
echo prepared $i
