#!/bin/sh
# usage: tools/seed_prepare.sh C09  -> worktree /tmp/wt-C09 + /tmp/seed-C09/{property.json,PROMPT.txt}
set -e
i=$1; d=/tmp/wt-$i
git -C /repo worktree add -q --detach $d HEAD
mkdir -p /tmp/seed-$i
/venv/bin/python -c "
import json
for l in open('/verif/properties.jsonl'):
    p=json.loads(l)
    if p['id']=='$i': json.dump(p, open('/tmp/seed-$i/property.json','w'), indent=1)
"
sed "s#__WT__#/tmp/wt-$i#g; s#__OUT__#/tmp/seed-$i#g" /verif/tools/seed_prompt.txt > /tmp/seed-$i/PROMPT.txt
echo prepared $i
