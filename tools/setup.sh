#!/bin/sh
# Offline setup: nothing to build (pure Python on /venv); verify the pieces are there.
set -e
cd "$(dirname "$0")/.."
chmod +x check tools/bin/pandoc tools/*.py 2>/dev/null || true
/venv/bin/python - <<'PY'
import sys
sys.path.insert(0, '.')
import google.protobuf, grpc, proto, google.api_core, jinja2, requests
from mc import desc, apis, edits
req = apis.baseline('transport=grpc+rest')
desc.gate(req)
print('setup ok: baseline request', len(req.SerializeToString()), 'bytes,', len(edits.EDIT_NAMES), 'edits')
PY
