#!/venv/bin/python
"""Dev-time helper (never used by a check): add the fingerprints of the current replay
files of <prop> that match <regex> to KNOWN_FINDINGS.json under finding <id>.
usage: tools/known_add.py C03 D22 'regex' 'what fails'"""
import glob, json, os, re, sys
HERE = os.path.dirname(os.path.dirname(os.path.abspath(__file__)))
prop, fid, rx, what = sys.argv[1:5]
doc = json.load(open(os.path.join(HERE, 'KNOWN_FINDINGS.json')))
fps = sorted({json.load(open(f))['fingerprint'] for f in glob.glob(os.path.join(HERE, 'evidence/replays', prop + '-*.json'))})
fps = [f for f in fps if re.search(rx, f)]
ent = next((e for e in doc['findings'] if e['id'] == fid and e['property'] == prop), None)
if ent is None:
    ent = dict(id=fid, property=prop, what=what, fingerprints=[])
    doc['findings'].append(ent)
ent['what'] = what
ent['fingerprints'] = sorted(set(ent['fingerprints']) | set(fps))
json.dump(doc, open(os.path.join(HERE, 'KNOWN_FINDINGS.json'), 'w'), indent=1)
print(f'{fid}/{prop}: {len(fps)} matched, {len(ent["fingerprints"])} listed')
