#!/venv/bin/python
"""Systematic mutation sweep (development aid; never used by a registered check).

For every mutation site of the chosen target files a scratch worktree of /repo (outside /repo and
/verif) gets the one-line change; Python-source mutants are first run through the project's own
pinned suite (only suite-passing mutants are interesting: "compiles and passes the existing
tests"); then the quick checks run against the worktree (VERIF_REPO / VERIF_EVIDENCE_DIR) in the
order <checks anchored at the file, cheapest first> + <the other behaviour checks> + <C13, C01,
and C10/C11/C20 where anchored>, stopping at the first check that reports a VIOLATION.

usage: tools/mutsweep.py <templates|python|PATH...> [--lanes N] [--out FILE] [--limit K] [--only-ops a,b]

Results: one JSON line per mutant in --out (default /verif/mutation/results.jsonl), resumable.
Operators:  jinja-if-neg   {% if C %} -> {% if not (C) %}          (also elif)
            py-if-neg      if C:      -> if not (C):               (also elif)
            py-eq-flip     ==  <-> !=   (first occurrence on a code line)
"""
import argparse
import ast
import glob
import hashlib
import json
import os
import re
import shutil
import subprocess
import sys
import threading
import time

VERIF = os.path.dirname(os.path.dirname(os.path.abspath(__file__)))
REPO = '/repo'
WALL = {'C01': 110, 'C02': 6, 'C03': 7, 'C04': 30, 'C05': 9, 'C06': 8, 'C07': 30, 'C08': 14, 'C09': 5, 'C10': 50, 'C11': 80,
        'C12': 13, 'C13': 140, 'C14': 10, 'C15': 4, 'C16': 14, 'C17': 9, 'C18': 3, 'C19': 4, 'C20': 60}
FAST = ['C18', 'C15', 'C19', 'C09', 'C02', 'C03', 'C06', 'C05', 'C17', 'C14', 'C12', 'C08', 'C16', 'C07', 'C04']
SLOW_ALWAYS = ['C13', 'C01']
SLOW_IF_ANCHORED = ['C10', 'C11', 'C20']


def anchors():
    m = {}
    for l in open(os.path.join(VERIF, 'properties.jsonl')):
        p = json.loads(l)
        for f in p['anchors']['files']:
            m.setdefault(f, []).append(p['id'])
    return m


ANCH = anchors()


def props_for(path):
    out = []
    for a, ps in ANCH.items():
        if path == a or (a.endswith('/') and path.startswith(a)):
            out += [p for p in ps if p not in out]
    return out


def order_for(path, all_fast=False):
    """Checks anchored at the file (cheapest first), then importability (C01) and the emitted tests (C13), then -- only with
    --all-fast -- the behaviour checks not anchored at the file."""
    anch = props_for(path)
    first = sorted([p for p in anch if p in FAST], key=lambda p: WALL[p])
    slow = ['C01', 'C13'] + [p for p in SLOW_IF_ANCHORED if p in anch]
    rest = [p for p in FAST if p not in first] if all_fast else []
    if all_fast == 'rest-only':
        return [p for p in FAST if p not in first] + [p for p in ('C10', 'C20', 'C11') if p not in slow]
    return first + slow + rest


def sh(cmd, **kw):
    return subprocess.run(cmd, shell=True, capture_output=True, text=True, **kw)


# ------------------------------------------------------------------ mutants

JIF = re.compile(r'(\{%[-+]?\s*(?:el)?if\s+)(.*?)(\s*[-+]?%\})')


def jinja_mutants(path, text):
    for i, line in enumerate(text.split('\n')):
        for k, m in enumerate(JIF.finditer(line)):
            cond = m.group(2)
            if cond.startswith('not (') and cond.endswith(')'):
                new = m.group(1) + cond[5:-1] + m.group(3)
            else:
                new = m.group(1) + 'not (' + cond + ')' + m.group(3)
            yield dict(op='jinja-if-neg', line=i + 1, k=k, before=line.strip()[:160],
                       new_line=line[:m.start()] + new + line[m.end():])


def docstring_lines(tree):
    skip = set()
    for node in ast.walk(tree):
        if isinstance(node, (ast.Module, ast.ClassDef, ast.FunctionDef, ast.AsyncFunctionDef)):
            b = node.body
            if b and isinstance(b[0], ast.Expr) and isinstance(getattr(b[0], 'value', None), ast.Constant) and isinstance(b[0].value.value, str):
                skip.update(range(b[0].lineno, b[0].end_lineno + 1))
    return skip


PIF = re.compile(r'^(\s*(?:el)?if\s+)(.*?)(:\s*(#.*)?)$')


def python_mutants(path, text):
    try:
        skip = docstring_lines(ast.parse(text))
    except SyntaxError:
        return
    lines = text.split('\n')
    for i, line in enumerate(lines):
        if (i + 1) in skip or line.strip().startswith('#'):
            continue
        m = PIF.match(line)
        if m and m.group(2).count('(') == m.group(2).count(')'):
            yield dict(op='py-if-neg', line=i + 1, k=0, before=line.strip()[:160],
                       new_line=m.group(1) + 'not (' + m.group(2) + ')' + m.group(3))
        code = line.split('#')[0]
        for a, b in ((' == ', ' != '), (' != ', ' == ')):
            j = code.find(a)
            if j >= 0 and "'" not in code[:j].split('(')[-1][-3:]:
                yield dict(op='py-eq-flip', line=i + 1, k=0 if a == ' == ' else 1, before=line.strip()[:160],
                           new_line=line[:j] + b + line[j + len(a):])
                break


def collect(targets):
    files = []
    for t in targets:
        if t == 'service-templates':
            base = os.path.join(REPO, 'gapic/templates')
            files += [f for f in sorted(glob.glob(base + '/%namespace/%name_%version/**/*.j2', recursive=True))
                      if 'rest_asyncio' not in f]
            files += sorted(glob.glob(base + '/examples/*.j2')) + sorted(glob.glob(base + '/scripts/*.j2'))
        elif t == 'templates':
            files += [f for f in sorted(glob.glob(os.path.join(REPO, 'gapic/templates/**/*.j2'), recursive=True))
                      if '/docs/' not in f and '/testing/' not in f and 'noxfile' not in f]
        elif t == 'python':
            for pat in ('gapic/schema/*.py', 'gapic/utils/*.py', 'gapic/generator/*.py', 'gapic/samplegen/*.py',
                        'gapic/samplegen_utils/*.py', 'gapic/cli/*.py'):
                files += [f for f in sorted(glob.glob(os.path.join(REPO, pat))) if not f.endswith('_pb2.py')]
        else:
            files.append(os.path.join(REPO, t) if not t.startswith('/') else t)
    out = []
    for f in files:
        rel = os.path.relpath(f, REPO)
        text = open(f, encoding='utf8').read()
        gen = jinja_mutants if f.endswith('.j2') else python_mutants
        for m in gen(rel, text):
            m['file'] = rel
            m['id'] = hashlib.sha1(f'{rel}:{m["line"]}:{m["op"]}:{m["k"]}'.encode()).hexdigest()[:10]
            out.append(m)
    return out


# ------------------------------------------------------------------ lanes

def apply_mutant(wt, m):
    p = os.path.join(wt, m['file'])
    lines = open(p, encoding='utf8').read().split('\n')
    lines[m['line'] - 1] = m['new_line']
    with open(p, 'w', encoding='utf8') as f:
        f.write('\n'.join(lines))


def run_mutant(lane, m, args):
    wt, evd = f'/tmp/mutlane-{lane}', f'/tmp/mutev-{lane}'
    head = sh(f'git -C {REPO} rev-parse HEAD').stdout.strip()
    sh(f'git -C {wt} checkout -q -- . && git -C {wt} checkout -q --detach {head}')      # always the current tree, plus one mutation
    apply_mutant(wt, m)
    res = dict(id=m['id'], file=m['file'], line=m['line'], op=m['op'], before=m['before'], after=m['new_line'].strip()[:160],
               checks={}, killed_by=None, t=time.strftime('%H:%M:%S'))
    t0 = time.time()
    if m['file'].endswith('.py'):
        try:
            compile(open(os.path.join(wt, m['file']), encoding='utf8').read(), m['file'], 'exec')
        except SyntaxError:
            res['suite'] = 'syntax-error'
            return res
        r = sh('/venv/bin/python -m pytest -q -p no:cacheprovider --timeout=900 --continue-on-collection-errors --maxfail=40 2>&1 | tail -1',
               cwd=wt, env=dict(os.environ, PYTHONPATH=wt))
        tail = r.stdout.strip()
        res['suite'] = tail[-80:]
        if not (re.search(r'\b609 passed', tail) and 'failed' not in tail):
            res['suite_killed'] = True
            res['wall'] = round(time.time() - t0, 1)
            return res
    if args.suite_only:
        res['wall'] = round(time.time() - t0, 1)
        res['suite_only'] = True
        return res
    env = dict(os.environ, VERIF_REPO=wt, VERIF_EVIDENCE_DIR=evd, VERIF_JOBS=str(args.jobs), VERIF_SCRATCH=f'/tmp/mutscratch-{lane}')
    os.makedirs(f'/tmp/mutscratch-{lane}', exist_ok=True)
    for p in order_for(m['file'], 'rest-only' if args.rest_only else args.all_fast):
        r = sh(f'./check {p} --tier quick', cwd=VERIF, env=env)
        fps = [l.strip()[13:] for l in r.stdout.splitlines() if l.strip().startswith('fingerprint:')]
        res['checks'][p] = dict(rc=r.returncode, fp=fps[:2])
        if r.returncode == 2:
            res['checks'][p]['err'] = ([l for l in r.stdout.splitlines() if 'HARNESS-ERROR' in l] or [''])[0][:300]
        if r.returncode == 1:
            res['killed_by'] = p
            break
    res['wall'] = round(time.time() - t0, 1)
    shutil.rmtree(evd, ignore_errors=True)
    return res


def main():
    ap = argparse.ArgumentParser()
    ap.add_argument('targets', nargs='+')
    ap.add_argument('--lanes', type=int, default=3)
    ap.add_argument('--jobs', type=int, default=8)
    ap.add_argument('--out', default=os.path.join(VERIF, 'mutation', 'results.jsonl'))
    ap.add_argument('--limit', type=int, default=0)
    ap.add_argument('--rest-only', action='store_true', help='run only the behaviour checks that are NOT anchored at the mutated file (second pass over survivors)')
    ap.add_argument('--all-fast', action='store_true', help='also run the behaviour checks not anchored at the mutated file')
    ap.add_argument('--offset', type=int, default=0)
    ap.add_argument('--stride', type=int, default=1, help='take every n-th mutant (sampling the site list, for a first pass)')
    ap.add_argument('--suite-only', action='store_true', help='python mutants: only run the pinned suite (phase 1)')
    ap.add_argument('--only-ids-from', help='run only the mutants that a --suite-only results file lists as passing the suite')
    ap.add_argument('--only-killed-from', help='re-run (a --stride sample of) the mutants a results file lists as killed, to re-validate the kills on the current tree')
    ap.add_argument('--only-survivors-from', help='re-run only the mutants a results file lists as survivors (use with --all-fast)')
    args = ap.parse_args()
    muts = collect(args.targets)
    if args.only_survivors_from:
        keep = {r['id'] for r in map(json.loads, open(args.only_survivors_from)) if 'checks' in r and r['checks'] and not r.get('killed_by')}
        muts = [m for m in muts if m['id'] in keep]
    if args.only_killed_from:
        keep = {r['id'] for r in map(json.loads, open(args.only_killed_from)) if r.get('killed_by')}
        muts = [m for m in muts if m['id'] in keep]
    if args.only_ids_from:
        keep = {r['id'] for r in map(json.loads, open(args.only_ids_from)) if r.get('suite_only') and not r.get('suite_killed')
                and r.get('suite') != 'syntax-error'}
        muts = [m for m in muts if m['id'] in keep]
    os.makedirs(os.path.dirname(args.out), exist_ok=True)
    done = set()
    if os.path.exists(args.out):
        done = {json.loads(l)['id'] for l in open(args.out) if l.strip()}
    todo = [m for m in muts[args.offset::args.stride] if m['id'] not in done]
    if args.limit:
        todo = todo[:args.limit]
    print(f'{len(muts)} sites, {len(done)} done, {len(todo)} to run on {args.lanes} lanes', flush=True)
    lock = threading.Lock()
    it = iter(todo)

    def worker(lane):
        wt = f'/tmp/mutlane-{lane}'
        with lock:
            sh(f'git -C {REPO} worktree remove --force {wt}')
            shutil.rmtree(wt, ignore_errors=True)
            sh(f'git -C {REPO} worktree prune')
            r = sh(f'git -C {REPO} worktree add -q --detach {wt} HEAD')
            assert r.returncode == 0 and os.path.isdir(os.path.join(wt, 'gapic')), r.stderr
        try:
            while True:
                with lock:
                    m = next(it, None)
                if m is None:
                    break
                try:
                    res = run_mutant(lane, m, args)
                except BaseException as e:   # noqa
                    res = dict(id=m['id'], file=m['file'], line=m['line'], op=m['op'], error=repr(e)[:300])
                with lock:
                    with open(args.out, 'a') as f:
                        f.write(json.dumps(res) + '\n')
                    k = res.get('killed_by') or ('suite' if res.get('suite_killed') else 'suite-passed' if res.get('suite_only') else 'SURVIVED' if 'checks' in res and not res.get('error') else 'n/a')
                    print(f'[{lane}] {m["file"].split("/")[-1]}:{m["line"]} {m["op"]} -> {k} ({res.get("wall")}s)', flush=True)
        finally:
            with lock:
                sh(f'git -C {REPO} worktree remove --force {wt}')
                shutil.rmtree(wt, ignore_errors=True)
            shutil.rmtree(f'/tmp/mutscratch-{lane}', ignore_errors=True)

    ts = [threading.Thread(target=worker, args=(k,)) for k in range(args.lanes)]
    for t in ts:
        t.start()
    for t in ts:
        t.join()


if __name__ == '__main__':
    main()
